#!/bin/sh
# tools/mutrun.sh <patch.diff> <ID> [tier]  - run one check against a scratch copy of /repo with the patch applied.
# The copy lives under /tmp and is removed afterwards; evidence/replays of the run go to /tmp too.
set -e
P=$(realpath "$1"); ID=$2; TIER=${3:-quick}
D=$(mktemp -d /tmp/mut.XXXXXX)
rsync -a --exclude .git --exclude '*.vcd' /repo/ "$D/repo/"
(cd "$D/repo" && patch -p1 -s < "$P")
set +e
VERIF_REPO="$D/repo" VERIF_OUT="$D/out" /verif/run check "$ID" --tier "$TIER"
RC=$?
if [ -n "$MUT_REPLAY" ] && ls "$D"/out/replays/*.json >/dev/null 2>&1; then
  for f in "$D"/out/replays/*.json; do VERIF_REPO="$D/repo" /verif/run replay "$f"; echo "replay-on-mutant rc=$?"; /verif/run replay "$f"; echo "replay-on-clean rc=$?"; break; done
fi
rm -rf "$D"
echo "mutrun exit=$RC"
exit $RC
