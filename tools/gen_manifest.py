#!/usr/bin/env python3
"""Regenerates /verif/MANIFEST.json from the table below (kept valid at all times)."""
import json
import os

VERIF = os.path.dirname(os.path.dirname(os.path.abspath(__file__)))

E1 = "E1 nir2smt"
E2 = "E2 symex"

# id -> (engine, technique, level text, level note, design ref)
E1_NOTE = ("Amaranth's elaborator and NIR are the trusted front end (reduced by co-simulating the encoding against "
           "Amaranth's Python simulator per configuration and by replaying every counterexample on that simulator "
           "from reset); z3 (fresh QF_BV solver per query); single clock domain with rst held low; configurations "
           "(widths, layouts, feature sets) are enumerated from bounded families, inside each the solver covers "
           "every input value, cycle-by-cycle schedule and (for free-state windows) every internal state.")
E2_NOTE = ("The real Python functions run on z3-backed proxy integers (module globals isinstance/range rebound from "
           "the harness, no source edits); every feasible path of the bounded call sequence is enumerated and each "
           "obligation discharged by z3 on each path; every path is replayed concretely on the unpatched module. "
           "Widths, alignments and tuple shapes are enumerated; addresses, sizes and offsets are symbolic integers.")
T1 = "bounded symbolic model checking of the generated netlist (Amaranth NIR -> z3 QF_BV transition system)"
T2 = "symbolic execution of the real Python code on z3-backed integers, exhaustive path enumeration"


def _e1(text, ref):
    return (E1, T1, text, E1_NOTE, ref)


def _e2(text, ref):
    return (E2, T2, text, E2_NOTE, ref)


CLAIMED = {
    "C01": _e1("Whole hierarchies (wishbone.Decoder over SRAMs and Wishbone-CSR bridges over nested csr.Decoders over "
               "multiplexers, register bridges, event monitors, GPIO) flattened into one netlist; against the ROOT "
               "memory map: leaf strobes iff the address decodes to that leaf and chunk offsets (CSR roots, from an "
               "arbitrary state, symbolic root address), and one symbolic Wishbone transfer from reset reaching "
               "exactly the mapped leaves / SRAM words, never acknowledged outside every window; plus two concrete obligations on the "
               "root map itself (every register built is listed; decode_address agrees with all_resources at range ends, "
               "also after look-ups made while the hierarchy was being built).",
               "DESIGN.md section 4 C01"),
    "C02": _e2("Real MemoryMap.add_resource/add_window/align_to/freeze and the range map beneath run on symbolic "
               "addresses and sizes; every path of every enumerated call-kind sequence (length 2 exhaustively, 3-4 "
               "sampled / exhaustive in the thorough tier) is explored and disjointness, bounds, size, reporting, "
               "cursor rule, exact explicit placement and failure atomicity are proved on every path; every call is also "
               "replayed on a reference map that never saw the refused calls and equal outcomes are proved (no half-applied "
               "state can influence a later call).",
               "DESIGN.md section 4 C02"),
    "C03": _e2("Real all_resources/find_resource/decode_address/_translate on enumerated tree shapes with symbolic "
               "placements and a symbolic decoded address, against a closed-form composition oracle; lookups (also abandoned "
               "traversals, strangers, look-ups of resources and addresses BEFORE their window is added) are interleaved with "
               "construction at every level.",
               "DESIGN.md section 4 C03"),
    "C04": _e1("Real Multiplexer.elaborate (with the real shadow-balancing code) per layout: read-strobe exactness and "
               "zero-when-idle for ALL input sequences (1-2 frames from an arbitrary state), atomic snapshot of an "
               "n-chunk read transaction over 2n+2 frames from an arbitrary state with register values changing every "
               "cycle; idle-collapse / unmapped=idle lemmas generalise the bounded gaps.", "DESIGN.md section 4 C04"),
    "C05": _e1("Exact write-strobe function for ALL sequences (2 free frames), write data of a complete n-chunk write "
               "(2n+1 free frames), and a reset-rooted miter showing the shadow-sharing limit is unobservable under "
               "conforming traffic.", "DESIGN.md section 4 C05"),
    "C06": _e1("Real csr.Decoder.add/elaborate and MemoryMap.window_patterns per layout; the decoder is combinational, "
               "so one free frame decides routing, address/data pass-through and read-data selection for every input "
               "combination against the windows() oracle.", "DESIGN.md section 4 C06"),
    "C07": _e1("Real wishbone.Decoder.add/elaborate per geometry and feature mix; one free frame decides selection, "
               "request relay (defaults for missing optional signals) and response relay for every combination of "
               "requests and subordinate responses.", "DESIGN.md section 4 C07"),
    "C08": _e1("Exact reachable state set of the arbiter by all-SAT image iteration; the owner of each state is "
               "established observationally (for all inputs the bus carries exactly that initiator and only it sees "
               "responses); non-pre-emption is a one-step query from every reachable state.", "DESIGN.md section 4 C08"),
    "C09": _e1("Exact next-owner function from every reachable state and a lasso search of length |reachable|+1 "
               "(complete for the finite state graph) for a starving loop with a released cycle.",
               "DESIGN.md section 4 C09"),
    "C10": _e1("Reset-rooted BMC of the bridge against a reference sequencer for 2-3 complete transfers with symbolic "
               "requests, gaps, select masks and back-to-back transfers (base case); induction over the transfer sequence "
               "from every reachable sequencer state (all-SAT reachability of the control projection) with free data "
               "registers, after any acknowledge and after a reset pulse in any state; idle-collapse lemma; all-state "
               "clauses (no strobe outside a transfer, single-cycle ack) from a free state.", "DESIGN.md section 4 C10 and 13"),
    "C11": _e1("Real Register.__init__/__iter__/elaborate and flatten() on field collections from a grammar; one free "
               "frame decides packing, zero-elsewhere and strobe routing for every value against a declaration-order "
               "walk of the input structure; the finite access-compatibility table is executed.",
               "DESIGN.md section 4 C11"),
    "C12": _e1("Exact next-state and output functions of every field action from an arbitrary state (2 frames) and "
               "the reset value, per enumerated shape/init: a bisimulation with the documented automaton, hence all "
               "histories.", "DESIGN.md section 4 C12"),
    "C13": _e1("Trigger functions over two frames from an arbitrary state and from reset, exact pending step with bit "
               "k = event_map.index(src), outgoing line, for all trigger assignments of n sources; the event-map "
               "numbering is executed symbolically (E2) over call sequences with a symbolic source choice.",
               "DESIGN.md section 4 C13"),
    "C17": _e2("Real Builder.add/Cluster/Index/freeze/as_memory_map with real registers of enumerated widths and "
               "SYMBOLIC offsets: explicit placement, implicit first-size-aligned placement, power-of-two sizes, scope "
               "names, no accepted overlap/overflow/name collision, every refusal justified by the placement model, frozen "
               "builder - proved on every path.",
               "DESIGN.md section 4 C17"),
    "C18": _e2("Real _Namespace / MemoryMap.Name / add_resource / add_window on names whose parts are symbolic choices "
               "from a 6-symbol alphabet (shared prefixes, '0' vs 0), as resources, named windows and absorbed "
               "anonymous windows, incl. adds failing for non-name reasons; accepted <=> no prefix conflict.",
               "DESIGN.md section 4 C18"),
    "C14": _e1("csr.EventMonitor with everything beneath, attached directly, through csr.Decoder.add and through "
               "wiring.connect to an initiator interface; from an arbitrary state: enable write/read-back, line = "
               "enable-and-pending with an atomic multi-chunk snapshot, pending read / write-one-to-clear / read against "
               "the fold of trg | (P & ~clr) with triggers derived from the source input lines every cycle; reset values.",
               "DESIGN.md section 4 C14"),
    "C16": _e1("gpio.Peripheral with the whole CSR stack beneath it; from an arbitrary state: Mode+Output writes then the "
               "documented o/oe/alt_mode table for all pins jointly, Output+SetClr writes then read-back per 2-bit code, "
               "Input read = pin levels delayed by exactly input_stages cycles with pin inputs free in every cycle.",
               "DESIGN.md section 4 C16"),
    "C15": _e1("Exact one-step functions for ack, read data and the whole memory array (array is part of the free "
               "state), plus the construction-time image from reset: read-your-writes over all histories.",
               "DESIGN.md section 4 C15"),
    "C19": _e1("A zoo of components sampled from all netlist families (plus register bridges over Builder maps) is "
               "elaborated twice per instance under a guard (internal errors, RecursionError, second-elaboration "
               "failures, metadata drift are violations by observation) and a reset-rooted miter between the two "
               "netlists of one instance decides 'same hardware' for every input sequence of 8 cycles; post-elaboration API "
               "behaviour is compared with a never-elaborated twin; termination of shadow balancing is executed "
               "symbolically (E2, 16-bit vectors) over symbolic register start addresses.",
               "DESIGN.md section 4 C19"),
}

NOT_APPLICABLE = {
    "C20": "Python metadata (port directions, signature equality over constructor parameters): no state, "
           "schedule or arithmetic for a solver to quantify over, and the constructors cannot run on symbolic "
           "widths; see DESIGN.md section 5.",
}

PENDING_REASON = "check not built yet in this revision of the framework (see DESIGN.md section 9 build order)"


def main():
    ids = [json.loads(l)["id"] for l in open(os.path.join(VERIF, "properties.jsonl"))]
    checks = []
    for pid in ids:
        if pid not in CLAIMED:
            continue
        engine, technique, text, note, ref = CLAIMED[pid]
        checks.append({
            "property_id": pid,
            "quick_cmd": f"./run check {pid} --tier quick",
            "thorough_cmd": f"./run check {pid} --tier thorough",
            "evidence_file": f"/verif/evidence/{pid}.json",
            "replay_cmd_template": "./run replay {path}",
            "engine": engine,
            "level_claimed": {"category": "model_checking", "text": text, "design_ref": ref},
            "level_note": note,
            "technique": technique,
        })
    na = []
    for pid in ids:
        if pid in CLAIMED:
            continue
        na.append({"property_id": pid, "reason": NOT_APPLICABLE.get(pid, PENDING_REASON)})
    hooks_file = os.path.join(VERIF, "hooks.json")
    hooks = {"guard": "AMARANTH_SOC_VERIF",
             "enable": "AMARANTH_SOC_VERIF=1 is exported by ./run; no source hooks are needed: the checks read "
                       "Amaranth's netlist of the unmodified components and rebind module globals from the "
                       "harness",
             "baseline_off_cmd": "cd /repo && env -u AMARANTH_SOC_VERIF /venv/bin/python -m pytest -ra -q "
                                 "-p no:cacheprovider --timeout=900 --continue-on-collection-errors",
             "source_commits": [],
             "add_only": True}
    man = {
        "version": 1,
        "setup_cmd": "sh /verif/setup.sh",
        "hooks": hooks,
        "engines": [
            {"name": E1, "path": "vt/nir2smt.py, vt/bmc.py, vt/e1.py",
             "serves_properties": [p for p in ids if p in CLAIMED and CLAIMED[p][0].startswith("E1")],
             "kind_free_text": "real elaborate() code -> Amaranth NIR netlist -> z3 QF_BV transition system; "
                               "free-state / reset-rooted bounded model checking, counterexamples replayed on "
                               "Amaranth's Python simulator"},
            {"name": E2, "path": "vt/symex.py",
             "serves_properties": [p for p in ids if p in CLAIMED and "E2" in CLAIMED[p][0]],
             "kind_free_text": "symbolic execution of the real pure-Python allocator code on z3-backed proxy "
                               "integers, exhaustive path enumeration, per-path concrete replay"},
        ],
        "checks": checks,
        "not_applicable": na,
        "notes": "Exit codes: 0 held, 1 VIOLATION (reproduced on the real code), 2 inconclusive/harness error. "
                 "VERIF_REPO overrides the tree under test (mutation self-tests only); registered commands "
                 "use /repo.",
    }
    with open(os.path.join(VERIF, "MANIFEST.json"), "w") as f:
        json.dump(man, f, indent=1)
    print("MANIFEST.json:", len(checks), "checks,", len(na), "not applicable")


if __name__ == "__main__":
    main()
