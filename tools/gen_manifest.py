#!/usr/bin/env python3
"""Regenerates /verif/MANIFEST.json from the table below (kept valid at all times)."""
import json
import os

VERIF = os.path.dirname(os.path.dirname(os.path.abspath(__file__)))

E1 = "E1 nir2smt"
E2 = "E2 symex"

# id -> (engine, technique, level text, level note, design ref)
CLAIMED = {
    "C12": (E1, "bounded symbolic model checking of the generated netlist (NIR -> z3 QF_BV), exact "
                "next-state function from a free state + reset value",
            "The real elaborate() of every field action is translated from Amaranth's NIR into a bit-vector "
            "transition system; z3 proves the exact next-state and output functions from an arbitrary state "
            "(2 frames) and the reset value, for every input value, per enumerated shape/init. Exact step + "
            "initial state is a bisimulation with the documented automaton, hence all histories.",
            "Amaranth's elaborator and NIR are the trusted front end (reduced by per-configuration "
            "co-simulation of the encoding against Amaranth's Python simulator); z3; rst held low; shapes are "
            "enumerated (widths <= 32).",
            "DESIGN.md section 4 C12"),
}

NOT_APPLICABLE = {
    "C20": "Python metadata (port directions, signature equality over constructor parameters): no state, "
           "schedule or arithmetic for a solver to quantify over, and the constructors cannot run on symbolic "
           "widths; see DESIGN.md section 5.",
}

PENDING_REASON = "check not built yet in this revision of the framework (see DESIGN.md section 9 build order)"


def main():
    ids = [json.loads(l)["id"] for l in open(os.path.join(VERIF, "properties.jsonl"))]
    checks = []
    for pid in ids:
        if pid not in CLAIMED:
            continue
        engine, technique, text, note, ref = CLAIMED[pid]
        checks.append({
            "property_id": pid,
            "quick_cmd": f"./run check {pid} --tier quick",
            "thorough_cmd": f"./run check {pid} --tier thorough",
            "evidence_file": f"/verif/evidence/{pid}.json",
            "replay_cmd_template": "./run replay {path}",
            "engine": engine,
            "level_claimed": {"category": "model_checking", "text": text, "design_ref": ref},
            "level_note": note,
            "technique": technique,
        })
    na = []
    for pid in ids:
        if pid in CLAIMED:
            continue
        na.append({"property_id": pid, "reason": NOT_APPLICABLE.get(pid, PENDING_REASON)})
    hooks_file = os.path.join(VERIF, "hooks.json")
    hooks = {"guard": "AMARANTH_SOC_VERIF",
             "enable": "AMARANTH_SOC_VERIF=1 is exported by ./run; no source hooks are needed: the checks read "
                       "Amaranth's netlist of the unmodified components and rebind module globals from the "
                       "harness",
             "baseline_off_cmd": "cd /repo && env -u AMARANTH_SOC_VERIF /venv/bin/python -m pytest -ra -q "
                                 "-p no:cacheprovider --timeout=900 --continue-on-collection-errors",
             "source_commits": [],
             "add_only": True}
    man = {
        "version": 1,
        "setup_cmd": "sh /verif/setup.sh",
        "hooks": hooks,
        "engines": [
            {"name": E1, "path": "vt/nir2smt.py, vt/bmc.py, vt/e1.py",
             "serves_properties": [p for p in ids if p in CLAIMED and CLAIMED[p][0].startswith("E1")],
             "kind_free_text": "real elaborate() code -> Amaranth NIR netlist -> z3 QF_BV transition system; "
                               "free-state / reset-rooted bounded model checking, counterexamples replayed on "
                               "Amaranth's Python simulator"},
            {"name": E2, "path": "vt/symex.py",
             "serves_properties": [p for p in ids if p in CLAIMED and "E2" in CLAIMED[p][0]],
             "kind_free_text": "symbolic execution of the real pure-Python allocator code on z3-backed proxy "
                               "integers, exhaustive path enumeration, per-path concrete replay"},
        ],
        "checks": checks,
        "not_applicable": na,
        "notes": "Exit codes: 0 held, 1 VIOLATION (reproduced on the real code), 2 inconclusive/harness error. "
                 "VERIF_REPO overrides the tree under test (mutation self-tests only); registered commands "
                 "use /repo.",
    }
    with open(os.path.join(VERIF, "MANIFEST.json"), "w") as f:
        json.dump(man, f, indent=1)
    print("MANIFEST.json:", len(checks), "checks,", len(na), "not applicable")


if __name__ == "__main__":
    main()
