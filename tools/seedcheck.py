#!/usr/bin/env python3
"""tools/seedcheck.py <src_dir> <dest_id> <owning property> [more properties...]
Verifies a seeded change independently (applies to a scratch copy of /repo, full test-suite must pass,
demo must fail with the change and pass without) and runs the given checks against it.  On success the
change is stored under /verif/seeded/<dest_id>/ with a verification record.  Scratch copies live under /tmp
and are removed afterwards."""
import json, os, shutil, subprocess, sys, tempfile, time

src, dest, props = sys.argv[1], sys.argv[2], sys.argv[3:]
tmp = tempfile.mkdtemp(prefix="seedchk.")
repo = os.path.join(tmp, "repo")
rec = {"verified_at": time.strftime("%Y-%m-%d %H:%M:%S"), "repo_head": subprocess.run(
    ["git", "-C", "/repo", "rev-parse", "--short", "HEAD"], capture_output=True, text=True).stdout.strip()}
try:
    subprocess.run(["rsync", "-a", "--exclude", ".git", "--exclude", "*.vcd", "/repo/", repo + "/"], check=True)
    p = subprocess.run(["patch", "-p1", "-s", "-i", os.path.join(src, "patch.diff")], cwd=repo, capture_output=True, text=True)
    rec["patch_applies"] = p.returncode == 0
    if p.returncode != 0:
        print("PATCH FAILED", p.stdout, p.stderr)
        sys.exit(3)
    env = dict(os.environ, PYTHONPATH=repo, PYTHONDONTWRITEBYTECODE="1")
    t = subprocess.run(["/venv/bin/python", "-m", "pytest", "-q", "-p", "no:cacheprovider", "-x"], cwd=repo, env=env,
                       capture_output=True, text=True)
    tail = t.stdout.strip().splitlines()[-1] if t.stdout.strip() else ""
    rec["suite_with_change"] = tail
    rec["suite_passes"] = t.returncode == 0 and "290 passed" in tail
    d1 = subprocess.run(["/venv/bin/python", os.path.join(src, "demo.py")], cwd=repo, env=env, capture_output=True, text=True, timeout=300)
    rec["demo_with_change_exit"] = d1.returncode
    env2 = dict(os.environ, PYTHONPATH="/repo", PYTHONDONTWRITEBYTECODE="1")
    d2 = subprocess.run(["/venv/bin/python", os.path.join(src, "demo.py")], cwd="/repo", env=env2, capture_output=True, text=True, timeout=300)
    rec["demo_on_clean_exit"] = d2.returncode
    rec["checks"] = {}
    for pid in props:
        out = os.path.join(tmp, "out_" + pid)
        t0 = time.time()
        c = subprocess.run(["/verif/run", "check", pid, "--tier", "quick"], env=dict(os.environ, VERIF_REPO=repo, VERIF_OUT=out),
                           capture_output=True, text=True, timeout=3000)
        line = [l for l in c.stdout.splitlines() if l.startswith("[")]
        what = [l.strip() for l in c.stdout.splitlines() if l.strip().startswith("what:")][:1]
        rec["checks"][pid] = {"exit": c.returncode, "summary": line[-1] if line else "", "first": what[0][:300] if what else "",
                              "wall_s": round(time.time() - t0, 1)}
    ok = rec["suite_passes"] and rec["demo_with_change_exit"] != 0 and rec["demo_on_clean_exit"] == 0
    rec["kept"] = bool(ok)
    print(dest, "suite:", rec["suite_with_change"], "| demo patched/clean:", rec["demo_with_change_exit"], rec["demo_on_clean_exit"],
          "| checks:", {k: v["exit"] for k, v in rec["checks"].items()})
    if ok:
        d = os.path.join("/verif/seeded", dest)
        os.makedirs(d, exist_ok=True)
        shutil.copy(os.path.join(src, "patch.diff"), os.path.join(d, "patch.diff"))
        shutil.copy(os.path.join(src, "demo.py"), os.path.join(d, "demo.py"))
        meta = {}
        try:
            meta = json.load(open(os.path.join(src, "meta.json")))
        except Exception:
            pass
        meta["verification"] = rec
        meta["caught_by"] = [k for k, v in rec["checks"].items() if v["exit"] == 1]
        meta["source"] = "independent sub-agent given only the property text and a scratch worktree"
        json.dump(meta, open(os.path.join(d, "meta.json"), "w"), indent=1)
finally:
    shutil.rmtree(tmp, ignore_errors=True)
