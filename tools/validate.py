#!/verif/.venv/bin/python
import json, sys, glob, jsonschema
man = json.load(open('/verif/MANIFEST.json'))
jsonschema.validate(man, json.load(open('/root/.vp/MANIFEST.schema.json')))
es = json.load(open('/root/.vp/EVIDENCE.schema.json'))
for c in man['checks']:
    try:
        jsonschema.validate(json.load(open(c['evidence_file'])), es); print(c['property_id'], 'evidence ok')
    except Exception as e:
        print(c['property_id'], 'EVIDENCE INVALID', str(e)[:200])
print('manifest ok')
