#!/usr/bin/env python3
"""tools/mutsweep.py <phase> ...  - first-order mutation sweep over amaranth_soc, as a self-test of the checks.

  phase 1:  mutsweep.py gen <out.json> [file ...]      enumerate mutants (AST level) of the given source files
  phase 2:  mutsweep.py survive <in.json> <out.json>   run the repository's own test-suite on every mutant (8 workers);
                                                       keep the SURVIVORS (suite still passes)
  phase 3:  mutsweep.py detect <in.json> <out.json>    run the related quick checks on every survivor; record which
                                                       check (if any) reports it

Scratch copies of /repo live under /tmp and are removed afterwards.  Nothing registered in MANIFEST.json uses this."""
import ast, copy, json, os, shutil, subprocess, sys, tempfile
from concurrent.futures import ThreadPoolExecutor

REPO = "/repo"
RELATED = {
    "memory.py": ["C02", "C03", "C18", "C17", "C01", "C06", "C07"],
    "csr/bus.py": ["C04", "C05", "C06", "C01", "C14", "C16"],
    "csr/reg.py": ["C11", "C17", "C12", "C16", "C01", "C19"],
    "csr/action.py": ["C12", "C11", "C16"],
    "csr/event.py": ["C14", "C01"],
    "event.py": ["C13", "C14"],
    "csr/wishbone.py": ["C10", "C01"],
    "wishbone/bus.py": ["C07", "C08", "C09", "C01"],
    "wishbone/sram.py": ["C15", "C01"],
    "gpio.py": ["C16"],
}
CMP = {ast.Lt: ast.LtE, ast.LtE: ast.Lt, ast.Gt: ast.GtE, ast.GtE: ast.Gt, ast.Eq: ast.NotEq, ast.NotEq: ast.Eq,
       ast.Is: ast.IsNot, ast.IsNot: ast.Is, ast.In: ast.NotIn, ast.NotIn: ast.In}
BIN = {ast.Add: ast.Sub, ast.Sub: ast.Add, ast.LShift: ast.RShift, ast.RShift: ast.LShift, ast.BitOr: ast.BitAnd,
       ast.BitAnd: ast.BitOr, ast.FloorDiv: ast.Mult, ast.Mult: ast.FloorDiv, ast.Mod: ast.FloorDiv}


def mutants_of(path):
    src = open(path).read()
    tree = ast.parse(src)
    nodes = list(ast.walk(tree))
    out = []

    def emit(kind, lineno, mutate):
        t = copy.deepcopy(tree)
        ns = list(ast.walk(t))
        mutate(ns)
        try:
            out.append({"kind": kind, "line": lineno, "code": ast.unparse(t)})
        except Exception:
            pass
    for i, n in enumerate(nodes):
        ln = getattr(n, "lineno", 0)
        if isinstance(n, ast.Compare) and len(n.ops) == 1 and type(n.ops[0]) in CMP:
            emit("cmp", ln, lambda ns, i=i: ns[i].ops.__setitem__(0, CMP[type(ns[i].ops[0])]()))
        elif isinstance(n, ast.BinOp) and type(n.op) in BIN:
            emit("bin", ln, lambda ns, i=i: setattr(ns[i], "op", BIN[type(ns[i].op)]()))
        elif isinstance(n, ast.BoolOp):
            emit("bool", ln, lambda ns, i=i: setattr(ns[i], "op", ast.Or() if isinstance(ns[i].op, ast.And) else ast.And()))
        elif isinstance(n, ast.UnaryOp) and isinstance(n.op, (ast.Not, ast.Invert)):
            emit("unary-drop", ln, lambda ns, i=i: ns[i].__dict__.update(ns[i].operand.__dict__) or setattr(ns[i], "__class__", type(ns[i].operand)))
        elif isinstance(n, ast.Constant) and type(n.value) is int and abs(n.value) < 70:
            emit("const+1", ln, lambda ns, i=i: setattr(ns[i], "value", ns[i].value + 1))
            if n.value != 0:
                emit("const-1", ln, lambda ns, i=i: setattr(ns[i], "value", ns[i].value - 1))
        elif isinstance(n, ast.Constant) and type(n.value) is bool:
            emit("bool-flip", ln, lambda ns, i=i: setattr(ns[i], "value", not ns[i].value))
        elif isinstance(n, (ast.If, ast.While)) or isinstance(n, ast.IfExp):
            emit("negate-test", ln, lambda ns, i=i: setattr(ns[i], "test", ast.UnaryOp(op=ast.Not(), operand=ns[i].test)))
        elif isinstance(n, (ast.Expr, ast.Assign, ast.AugAssign)) and not (isinstance(n, ast.Expr) and isinstance(n.value, ast.Constant)):
            emit("delete-stmt", ln, lambda ns, i=i: (ns[i].__dict__.clear(), setattr(ns[i], "__class__", ast.Pass)))
        elif isinstance(n, ast.Return) and n.value is not None:
            pass
    # de-duplicate against the original
    base = ast.unparse(tree)
    seen, uniq = {base}, []
    for m in out:
        if m["code"] not in seen:
            seen.add(m["code"])
            uniq.append(m)
    return uniq


def scratch():
    d = tempfile.mkdtemp(prefix="msw.")
    subprocess.run(["rsync", "-a", "--exclude", ".git", "--exclude", "*.vcd", REPO + "/", d + "/repo/"], check=True)
    return d


def gen(out, files):
    allm = []
    for f in files:
        ms = mutants_of(os.path.join(REPO, "amaranth_soc", f))
        for m in ms:
            m["file"] = f
        allm += ms
        print(f, len(ms), flush=True)
    json.dump(allm, open(out, "w"))


def survive(inp, out):
    ms = json.load(open(inp))
    dirs = [scratch() for _ in range(8)]
    free = list(dirs)
    res = []

    def run(m):
        d = free.pop()
        try:
            p = os.path.join(d, "repo", "amaranth_soc", m["file"])
            orig = open(p).read()
            open(p, "w").write(m["code"])
            try:
                r = subprocess.run(["/venv/bin/python", "-m", "pytest", "-q", "-x", "-p", "no:cacheprovider"], cwd=os.path.join(d, "repo"),
                                   env=dict(os.environ, PYTHONPATH=os.path.join(d, "repo"), PYTHONDONTWRITEBYTECODE="1"),
                                   capture_output=True, text=True, timeout=300)
                ok = r.returncode == 0
            except subprocess.TimeoutExpired:
                ok = False
            open(p, "w").write(orig)
            return ok
        finally:
            free.append(d)
    with ThreadPoolExecutor(8) as ex:
        for m, ok in zip(ms, ex.map(run, ms)):
            if ok:
                res.append(m)
    for d in dirs:
        shutil.rmtree(d, ignore_errors=True)
    print("mutants", len(ms), "survivors", len(res))
    json.dump(res, open(out, "w"))


def detect(inp, out):
    ms = json.load(open(inp))
    d = scratch()
    res = json.load(open(out)) if os.path.exists(out) else []
    done = {(r["file"], r["kind"], r["line"], r["code"][:0]) for r in res}
    try:
        for k, m in enumerate(ms[len(res):], len(res)):
            p = os.path.join(d, "repo", "amaranth_soc", m["file"])
            orig = open(p).read()
            open(p, "w").write(m["code"])
            verdicts = {}
            for c in RELATED.get(m["file"], []):
                try:
                    r = subprocess.run(["/verif/run", "check", c, "--tier", "quick"], capture_output=True, text=True, timeout=1500,
                                       env=dict(os.environ, VERIF_REPO=os.path.join(d, "repo"), VERIF_OUT=os.path.join(d, "o")))
                    verdicts[c] = r.returncode
                except subprocess.TimeoutExpired:
                    verdicts[c] = 9
                if verdicts[c] == 1:
                    break
            open(p, "w").write(orig)
            import difflib
            diff = [l for l in difflib.unified_diff(ast.unparse(ast.parse(orig)).splitlines(), m["code"].splitlines(), lineterm="", n=0)
                    if not l.startswith(("---", "+++", "@@"))]
            rec = {"file": m["file"], "kind": m["kind"], "line": m["line"], "verdicts": verdicts,
                   "detected": 1 in verdicts.values(), "diff": diff[:6]}
            res.append(rec)
            print(k, m["file"], m["kind"], m["line"], verdicts, flush=True)
            json.dump(res, open(out, "w"), indent=0)
    finally:
        shutil.rmtree(d, ignore_errors=True)


if __name__ == "__main__":
    a = sys.argv[1:]
    {"gen": lambda: gen(a[1], a[2:]), "survive": lambda: survive(a[1], a[2]), "detect": lambda: detect(a[1], a[2])}[a[0]]()
