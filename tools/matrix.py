#!/usr/bin/env python3
"""tools/matrix.py [ids...] - run every check that is plausibly affected (by touched files) against every seeded
change and write seeded/MATRIX.json : {seed: {check: exit code}}.  Scratch copies under /tmp, removed afterwards."""
import json, os, re, shutil, subprocess, sys, tempfile

RELATED = {
    "memory.py": ["C01", "C02", "C03", "C06", "C07", "C17", "C18", "C19"],
    "csr/bus.py": ["C01", "C04", "C05", "C06", "C14", "C16", "C19"],
    "csr/reg.py": ["C01", "C11", "C12", "C16", "C17", "C19"],
    "csr/action.py": ["C11", "C12", "C16", "C19"],
    "csr/event.py": ["C01", "C14", "C19"],
    "event.py": ["C13", "C14", "C19"],
    "csr/wishbone.py": ["C01", "C10", "C19"],
    "wishbone/bus.py": ["C01", "C07", "C08", "C09", "C19"],
    "wishbone/sram.py": ["C01", "C15", "C19"],
    "gpio.py": ["C16", "C19"],
}
seeds = sorted(d for d in os.listdir("/verif/seeded") if os.path.isdir(os.path.join("/verif/seeded", d)))
if len(sys.argv) > 1:
    seeds = [s for s in seeds if s in sys.argv[1:]]
out_path = "/verif/seeded/MATRIX.json"
matrix = json.load(open(out_path)) if os.path.exists(out_path) else {}
for sd in seeds:
    patch = os.path.join("/verif/seeded", sd, "patch.diff")
    files = re.findall(r"^\+\+\+ b/amaranth_soc/(\S+)", open(patch).read(), re.M)
    checks = sorted({c for f in files for c in RELATED.get(f, [])} | {sd.split("-")[0]})
    tmp = tempfile.mkdtemp(prefix="mx.")
    try:
        repo = os.path.join(tmp, "repo")
        subprocess.run(["rsync", "-a", "--exclude", ".git", "/repo/", repo + "/"], check=True)
        subprocess.run(["patch", "-p1", "-s", "-i", patch], cwd=repo, check=True)
        row = matrix.setdefault(sd, {})
        for c in checks:
            r = subprocess.run(["/verif/run", "check", c, "--tier", "quick"], capture_output=True, text=True,
                               env=dict(os.environ, VERIF_REPO=repo, VERIF_OUT=os.path.join(tmp, "o")), timeout=3600)
            row[c] = r.returncode
        print(sd, row, flush=True)
        json.dump(matrix, open(out_path, "w"), indent=1, sort_keys=True)
    finally:
        shutil.rmtree(tmp, ignore_errors=True)
