#!/bin/sh
# Builds the overlay venv /verif/.venv (offline): python of /venv + its site-packages (amaranth, the
# editable amaranth_soc at /repo) + z3-solver / cvc5 / crosshair-tool / jsonschema from the wheelhouse.
# Idempotent; invoked by MANIFEST.setup_cmd and lazily by ./run.
set -e
V=/verif/.venv
WH=/opt/veriftools/wheels
if [ ! -x "$V/bin/python" ] || ! "$V/bin/python" -c "import z3, amaranth" >/dev/null 2>&1; then
    rm -rf "$V"
    /venv/bin/python -m venv "$V"
    SP=$("$V/bin/python" -c "import sysconfig; print(sysconfig.get_paths()['purelib'])")
    echo "import site; site.addsitedir('/venv/lib/python3.12/site-packages')" > "$SP/_overlay.pth"
    PIP_NO_INDEX=1 "$V/bin/python" -m pip install -q --no-index --find-links "$WH" z3-solver jsonschema >/dev/null
    PIP_NO_INDEX=1 "$V/bin/python" -m pip install -q --no-index --find-links "$WH" cvc5 >/dev/null 2>&1 || true
    PIP_NO_INDEX=1 "$V/bin/python" -m pip install -q --no-index --find-links "$WH" crosshair-tool >/dev/null 2>&1 || true
fi
"$V/bin/python" -c "import z3, amaranth, amaranth_soc; print('overlay ok: z3', z3.get_version_string(), 'amaranth', amaranth.__version__)"
