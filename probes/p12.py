import warnings; warnings.simplefilter("ignore")
import time, z3
from amaranth import *
from amaranth.lib import wiring
from amaranth.lib.wiring import In, Out
from amaranth_soc import csr
from amaranth_soc.csr.wishbone import WishboneCSRBridge
from amaranth_soc.memory import MemoryMap
from nir2smt import TS, unroll, bv
from p5 import build

# 1. idle-collapse and unmapped=idle lemmas on the mux
mux, regs, mm, ts = build(8, [(24, "rw", 0), (20, "rw", 5), (16, "r", 9), (30, "rw", 12)], 0) if False else build(8, [(8, "rw", None), (20, "rw", 1), (16, "r", 5), (30, "rw", 8)], 1)
bus = mux.bus
def eq_states(a, b): return z3.And(*[a[k] == b[k] for k in a])
frames, cons = unroll(ts, 3, init="free", tag="L")
s = z3.Solver(); s.add(cons)
for f in frames[:2]: s.add(f.sig(bus.r_stb) == 0, f.sig(bus.w_stb) == 0)
s1 = frames[1].state; s2 = frames[2].state
s.add(z3.Not(eq_states(s1, s2))); print("idle-collapse:", s.check())
# unmapped = idle
mapped = lambda a: z3.Or(*[z3.And(z3.UGE(a, i.start), z3.ULT(a, i.end)) for i in mm.all_resources()])
st = ts.free_state("U"); inp = ts.free_inputs("Ui"); inp2 = dict(inp)
r_name = [p for p in ts.inputs if p.endswith("r_stb")][0]; w_name = [p for p in ts.inputs if p.endswith("w_stb")][0]
inp2[r_name] = bv(1, 0); inp2[w_name] = bv(1, 0)
fa = ts.frame(st, inp); fb = ts.frame(st, inp2)
s = z3.Solver(); s.add(inp["rst"] == 0)
s.add(z3.Not(mapped(z3.ZeroExt(4, fa.sig(bus.addr)))))
na, nb = fa.next_state(), fb.next_state()
strobes = [fa.sig(r.element.r_stb) == 1 for r in regs if r.element.access.readable()]
s.add(z3.Or(z3.Not(eq_states(na, nb)), *strobes)); print("unmapped=idle:", s.check())

# 2. bridge: reach + 2-transfer BMC
for cdw, ratio in [(8, 1), (8, 2), (8, 4), (16, 4), (8, 8)]:
    t0 = time.time()
    cbus = csr.Interface(addr_width=5, data_width=cdw, path=("csr",))
    cbus.memory_map = MemoryMap(addr_width=5, data_width=cdw)
    br = WishboneCSRBridge(cbus, data_width=cdw * ratio)
    ports = [s_ for _,_,s_ in br.signature.flatten(br)] + [s_ for _,_,s_ in cbus.signature.flatten(cbus)]
    ts = TS(br, ports)
    wb = br.wb_bus
    D = 2 * (ratio + 2) + 3
    frames, cons = unroll(ts, D, init="reset", tag="B")
    s = z3.Solver(); s.add(cons)
    # harness ghost: phase counter; busy = in transfer; protocol: request stable until ack
    viol = []
    in_xfer = z3.BoolVal(False); k = z3.IntVal(0)    # k = cycles since start
    prev = None
    rd = {}
    for t, f in enumerate(frames):
        req = z3.And(f.sig(wb.cyc) == 1, f.sig(wb.stb) == 1)
        ack = f.sig(wb.ack) == 1
        if prev is not None:
            # if previous cycle was in a transfer and not acked, request must be held stable
            held = z3.And(prev["active"], z3.Not(prev["ack"]))
            s.add(z3.Implies(held, z3.And(req, f.sig(wb.adr) == prev["adr"], f.sig(wb.sel) == prev["sel"], f.sig(wb.we) == prev["we"], f.sig(wb.dat_w) == prev["dat_w"])))
            start = z3.And(req, z3.Not(held))
            k = z3.If(held, prev["k"] + 1, z3.IntVal(0))
        else:
            held = z3.BoolVal(False); start = req; k = z3.IntVal(0)
        active = req
        # in the ack cycle the initiator may already... classic: ack cycle ends transfer; treat cycle with ack as not starting
        # expectations
        exp_ack = z3.And(active, k == ratio + 1)
        viol.append(ack != exp_ack)
        for j in range(ratio):
            inph = z3.And(active, k == j)
            lane = z3.Extract((j + 1) * cdw - 1, j * cdw, f.sig(wb.dat_w))
            selj = z3.Extract(j, j, f.sig(wb.sel)) == 1
            we = f.sig(wb.we) == 1
            exp_addr = z3.ZeroExt(8, f.sig(wb.adr)) * ratio + j if len(wb.adr) else z3.BitVecVal(j, 8 + 0)
            viol.append(z3.And(inph, z3.Or((f.sig(cbus.r_stb) == 1) != z3.And(selj, z3.Not(we)), (f.sig(cbus.w_stb) == 1) != z3.And(selj, we),
                                            z3.And(selj, we, f.sig(cbus.w_data) != lane),
                                            z3.ZeroExt(8 + len(wb.adr) - len(cbus.addr), f.sig(cbus.addr)) != exp_addr)))
        nostrobe_phase = z3.Not(z3.And(active, k < ratio))
        viol.append(z3.And(nostrobe_phase, z3.Or(f.sig(cbus.r_stb) == 1, f.sig(cbus.w_stb) == 1)))
        # after an ack cycle, the next cycle is a fresh start: model by resetting 'held'
        prev = dict(active=z3.And(active, z3.Not(ack)), ack=ack, adr=f.sig(wb.adr), sel=f.sig(wb.sel), we=f.sig(wb.we), dat_w=f.sig(wb.dat_w), k=k)
    s.add(z3.Or(*viol))
    r = s.check()
    print(f"bridge cdw={cdw} ratio={ratio} D={D}:", r, f"{time.time()-t0:.2f}s")
    if str(r) == "sat":
        m = s.model()
        for t, f in enumerate(frames):
            print("  t", t, {n: m.eval(f.sig(getattr(wb, n)), model_completion=True) for n in ("cyc","stb","adr","sel","we","ack")}, {n: m.eval(f.sig(getattr(cbus, n)), model_completion=True) for n in ("addr","r_stb","w_stb")})
        break
