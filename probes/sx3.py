import warnings; warnings.simplefilter("ignore")
import z3, time, sys
from amaranth.lib import wiring
import amaranth_soc.memory as M
import symex
from symex import *
M.isinstance = sym_isinstance
M.range = RangeStub
class Res(wiring.Component):
    def __init__(self): super().__init__({})

def harness(ratio, named):
    # root (dw = 8*ratio, aw 6) <- dense window (dw 8, aw 4, alignment log2 ratio) with 2 resources at symbolic places; root also has own resource
    def h(E):
        al = ratio.bit_length() - 1
        leaf = M.MemoryMap(addr_width=4, data_width=8, alignment=al)
        r0, r1, r2 = Res(), Res(), Res()
        s0 = E.int("s0", 0, 16); z0 = E.int("z0", 0, 16)
        s1 = E.int("s1", 0, 16); z1 = E.int("z1", 0, 16)
        try:
            a0 = leaf.add_resource(r0, name="r0", addr=s0, size=z0)
            a1 = leaf.add_resource(r1, name="r1", addr=s1, size=z1)
        except ValueError:
            raise PathAbort()
        root = M.MemoryMap(addr_width=6, data_width=8 * ratio)
        b = E.int("b", 0, 64); zr = E.int("zr", 1, 8); sr = E.int("sr", 0, 64)
        try:
            root.add_resource(r2, name="r2", addr=sr, size=zr)
            ws, we, wr = root.add_window(leaf, name="w" if named else None, addr=b, sparse=False if ratio > 1 else None)
        except ValueError:
            raise PathAbort()
        E.prove(wr == ratio, "ratio")
        infos = list(root.all_resources())
        E.prove(len(infos) == 3, "count")
        exp = {id(r0): (ws + a0[0] // ratio, ws + a0[1] // ratio, 8 * ratio, ("w", "r0") if named else ("r0",)),
               id(r1): (ws + a1[0] // ratio, ws + a1[1] // ratio, 8 * ratio, ("w", "r1") if named else ("r1",)),
               id(r2): (sr, sr + zr, 8 * ratio, ("r2",))}
        prev_end = 0
        for i in infos:
            es, ee, ew, ep = exp[id(i.resource)]
            E.prove(i.start == es, "start"); E.prove(i.end == ee, "end"); E.prove(i.width == ew, "width")
            E.prove(tuple(p for n in i.path for p in n) == ep, "path")
            E.prove(i.start >= prev_end, "ascending"); prev_end = i.end
            f = root.find_resource(i.resource)
            E.prove((f.start == i.start), "find start"); E.prove(f.end == i.end, "find end")
        A = E.int("A", 0, 63)
        d = root.decode_address(A)
        if d is None:
            for i in infos:
                E.prove((A < i.start) | (A >= i.end), "decode none but inside")
        else:
            es, ee, _, _ = exp[id(d)]
            E.prove((A >= es) & (A < ee), "decode wrong")
    return h
for ratio in (1, 2, 4):
    for named in (True, False):
        E = Engine().explore(harness(ratio, named), max_paths=50000)
        print(ratio, named, "paths", E.paths, "queries", E.queries, f"{E.wall:.1f}s", "FAIL" if E.failures else "ok", sorted(set(f[0] for f in E.failures)))
        sys.stdout.flush()
