"""Probe: real Multiplexer._Shadow.prepare() on symbolic register start addresses (BV mode)."""
import warnings; warnings.simplefilter("ignore")
import z3, builtins, time, sys, itertools
import symex
from symex import Engine, SymBool, PathAbort, Concretized, _mkb
import amaranth_soc.csr.bus as B

W = 16
def lift(x):
    if isinstance(x, SymBV): return x.e
    if isinstance(x, bool): return z3.BitVecVal(int(x), W)
    if isinstance(x, int): return z3.BitVecVal(x, W)
    return None
def mk(e):
    e = z3.simplify(e)
    if z3.is_bv_value(e): return e.as_signed_long()
    return SymBV(e)
class SymBV:
    def __init__(self, e): self.e = e
    def _b(self, o, f, swap=False):
        oe = lift(o)
        if oe is None: return NotImplemented
        a, b = (oe, self.e) if swap else (self.e, oe)
        return mk(f(a, b))
    __add__ = lambda s, o: s._b(o, lambda a, b: a + b); __radd__ = lambda s, o: s._b(o, lambda a, b: a + b, True)
    __sub__ = lambda s, o: s._b(o, lambda a, b: a - b); __rsub__ = lambda s, o: s._b(o, lambda a, b: a - b, True)
    __mul__ = lambda s, o: s._b(o, lambda a, b: a * b); __rmul__ = lambda s, o: s._b(o, lambda a, b: a * b, True)
    __and__ = lambda s, o: s._b(o, lambda a, b: a & b); __rand__ = lambda s, o: s._b(o, lambda a, b: a & b, True)
    __or__ = lambda s, o: s._b(o, lambda a, b: a | b); __ror__ = lambda s, o: s._b(o, lambda a, b: a | b, True)
    def __mod__(s, o):
        assert isinstance(o, int) and o > 0
        return s._b(o, lambda a, b: z3.URem(a, b))    # values kept non-negative by harness bounds
    def __rmod__(s, o): raise Concretized("rmod")
    def __invert__(s): return mk(~s.e)
    def _c(self, o, f):
        oe = lift(o)
        if oe is None: return NotImplemented
        return _mkb(f(self.e, oe))
    __lt__ = lambda s, o: s._c(o, lambda a, b: a < b); __le__ = lambda s, o: s._c(o, lambda a, b: a <= b)
    __gt__ = lambda s, o: s._c(o, lambda a, b: a > b); __ge__ = lambda s, o: s._c(o, lambda a, b: a >= b)
    def __eq__(s, o):
        oe = lift(o)
        return False if oe is None else _mkb(s.e == oe)
    def __ne__(s, o):
        oe = lift(o)
        return True if oe is None else _mkb(s.e != oe)
    def __hash__(s): return 0
    def __index__(s): raise Concretized("index")
    def __repr__(s): return "<symbv>"
    __format__ = lambda s, spec: "<symbv>"

class SymRange:
    _ctr = 0
    def __init__(self, start, stop, step=1):
        self.start, self.stop, self.step = start, stop, step
        SymRange._ctr += 1; self._h = SymRange._ctr
    def __iter__(self):
        n = self.stop - self.start
        assert isinstance(n, int), "range length must be concrete"
        for i in range(n): yield self.start + i
    def __contains__(self, x): return bool((x >= self.start) & (x < self.stop)) if False else (bool(x >= self.start) and bool(x < self.stop))
    def __hash__(self): return self._h
    def __eq__(self, o): return self is o
def isinst(obj, cls):
    if type(obj) is SymBV: return cls is int
    if type(obj) is SymRange: return cls is builtins.range or cls is range
    return builtins.isinstance(obj, cls)
B.isinstance = isinst

class NonTermination(Exception): pass
Shadow = B.Multiplexer._Shadow
_orig_prepare = Shadow.prepare
def guarded_prepare(self):
    self._depth = getattr(self, "_depth", 0) + 1
    if self._depth > LIMIT: raise NonTermination()
    return _orig_prepare(self)
Shadow.prepare = guarded_prepare

def harness(sizes, overlaps, AW):
    def h(E):
        global LIMIT
        LIMIT = AW + 3
        SymRange._ctr = 0
        sh = Shadow(8, overlaps, name="r_shadow")
        starts = []
        prev_stop = 0
        for i, n in enumerate(sizes):
            s = SymBV(z3.BitVec(f"s{i}", W))
            E.assume(_mkb(z3.And(s.e >= 0, s.e <= (1 << AW) - n, s.e >= (prev_stop if isinstance(prev_stop, int) else prev_stop.e))))
            prev_stop = s + n
            starts.append(s)
            sh.add(SymRange(s, s + n))
        try:
            sh.prepare()
        except NonTermination:
            E.prove(False, "prepare() does not terminate")
        except ValueError:
            pass
    return h

t0 = time.time()
for sizes in [(1, 2), (1, 1, 2), (2, 1, 3), (2, 2, 2), (1, 2, 4)]:
    for ov in (None, 0, 1, 2):
        E = Engine().explore(harness(sizes, ov, 4), max_paths=20000)
        wit = None
        if E.failures:
            m = E.failures[0][1]
            wit = {str(d): m[d].as_signed_long() for d in m.decls()}
        print(sizes, ov, "paths", E.paths, "q", E.queries, f"{E.wall:.1f}s", "NONTERM witness " + str(wit) if E.failures else "ok"); sys.stdout.flush()
print(f"{time.time()-t0:.1f}s")
