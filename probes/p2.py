import warnings; warnings.simplefilter("ignore")
from amaranth import *
from amaranth.hdl import Fragment
from amaranth.lib import wiring
from amaranth.lib.wiring import In, Out, connect, flipped
from amaranth_soc import csr, event, wishbone, gpio
from amaranth_soc.csr.wishbone import WishboneCSRBridge
from amaranth_soc.wishbone.sram import WishboneSRAM
from amaranth_soc.memory import MemoryMap

# 1. EventMonitor port direction
em = event.EventMap(); s = event.Source(); em.add(s)
mon = csr.EventMonitor(em, data_width=8)
print("evmon bus type:", type(mon.bus), mon.signature.members["bus"])
ini = csr.Signature(addr_width=mon.bus.addr_width, data_width=8).create()
m = Module()
try:
    connect(m, ini, mon.bus); print("connect evmon OK")
except Exception as e: print("connect evmon FAIL:", type(e).__name__, e)

# others
def try_connect(name, ini, port):
    m = Module()
    try:
        connect(m, ini, port); print("connect", name, "OK")
    except Exception as e: print("connect", name, "FAIL:", type(e).__name__, str(e)[:200])

class Reg(csr.Register, access="rw"):
    def __init__(self, w): super().__init__({"f": csr.Field(csr.action.RW, w)})
b = csr.Builder(addr_width=4, data_width=8); b.add("a", Reg(12)); 
br = csr.Bridge(b.as_memory_map())
try_connect("bridge", csr.Signature(addr_width=4, data_width=8).create(), br.bus)
dec = csr.Decoder(addr_width=6, data_width=8); dec.add(br.bus)
try_connect("csrdec", csr.Signature(addr_width=6, data_width=8).create(), dec.bus)
g = gpio.Peripheral(pin_count=4, addr_width=4, data_width=8)
try_connect("gpio", csr.Signature(addr_width=4, data_width=8).create(), g.bus)
wb = WishboneCSRBridge(dec.bus, data_width=32)
try_connect("wbcsr", wb.wb_bus.signature.flip().create(), wb.wb_bus)
sr = WishboneSRAM(size=16, data_width=32, granularity=8)
try_connect("sram", sr.wb_bus.signature.flip().create(), sr.wb_bus)
wd = wishbone.Decoder(addr_width=8, data_width=32, granularity=8)
try_connect("wbdec", wishbone.Signature(addr_width=8, data_width=32, granularity=8).create(), wd.bus)
arb = wishbone.Arbiter(addr_width=8, data_width=32, granularity=8)
try_connect("arb", arb.bus, wishbone.Signature(addr_width=8, data_width=32, granularity=8).flip().create())

# 2. repeated elaboration
for name, comp in [("bridge", br), ("evmon", mon), ("gpio", g), ("wbcsr", wb), ("sram", sr)]:
    try:
        Fragment.get(comp, None); Fragment.get(comp, None); print("re-elab", name, "OK")
    except Exception as e:
        print("re-elab", name, "FAIL", type(e).__name__, e)
