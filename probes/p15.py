import warnings; warnings.simplefilter("ignore")
import time, z3, itertools
from amaranth import *
from amaranth_soc import wishbone
from amaranth_soc.wishbone import CycleType, BurstTypeExt
from nir2smt import TS, unroll, bv
from p10 import reachable, ffvec
def B(x): return x == 1
def Q(*assertions):
    s = z3.SolverFor("QF_BV"); s.set("timeout", 60000); s.add(*assertions); return str(s.check())

def run(N, afeats, ifeats_list, agran, igrans, dw=32):
    arb = wishbone.Arbiter(addr_width=4, data_width=dw, granularity=agran, features=afeats)
    intrs = [wishbone.Interface(addr_width=4, data_width=dw, granularity=igrans[i], features=ifeats_list[i], path=(f"i{i}",)) for i in range(N)]
    for i in intrs: arb.add(i)
    ports = [s for _,_,s in arb.signature.flatten(arb)]
    for i in intrs: ports += [s for _,_,s in i.signature.flatten(i)]
    ts = TS(arb, ports); bus = arb.bus
    R = reachable(ts)
    def owns(f, i):
        it = intrs[i]; ratio = it.granularity // bus.granularity
        sel = z3.Concat(*reversed([z3.Extract(k // ratio, k // ratio, f.sig(it.sel)) for k in range(len(bus.sel))])) if len(bus.sel) > 1 else f.sig(it.sel)
        c = [f.sig(bus.adr) == f.sig(it.adr), f.sig(bus.dat_w) == f.sig(it.dat_w), f.sig(bus.sel) == sel, f.sig(bus.we) == f.sig(it.we),
             f.sig(bus.stb) == f.sig(it.stb), f.sig(bus.cyc) == f.sig(it.cyc), f.sig(it.dat_r) == f.sig(bus.dat_r), f.sig(it.ack) == f.sig(bus.ack)]
        if hasattr(bus, "lock"): c.append(f.sig(bus.lock) == (f.sig(it.lock) if hasattr(it, "lock") else bv(1, 0)))
        if hasattr(bus, "cti"): c.append(f.sig(bus.cti) == (f.sig(it.cti) if hasattr(it, "cti") else bv(3, CycleType.CLASSIC.value)))
        if hasattr(bus, "bte"): c.append(f.sig(bus.bte) == (f.sig(it.bte) if hasattr(it, "bte") else bv(2, BurstTypeExt.LINEAR.value)))
        for nm in ("err", "rty"):
            if hasattr(it, nm): c.append(f.sig(getattr(it, nm)) == (f.sig(getattr(bus, nm)) if hasattr(bus, nm) else bv(1, 0)))
        if hasattr(it, "stall"): c.append(f.sig(it.stall) == (f.sig(bus.stall) if hasattr(bus, "stall") else ~f.sig(bus.ack)))
        for j, ot in enumerate(intrs):
            if j == i: continue
            c.append(f.sig(ot.ack) == 0)
            for nm in ("err", "rty"):
                if hasattr(ot, nm): c.append(f.sig(getattr(ot, nm)) == 0)
            if hasattr(ot, "stall"): c.append(f.sig(ot.stall) == 1)
        return z3.And(*c)
    owner = {}
    for r in R:
        st = ts.free_state("O"); inp = ts.free_inputs("Oi"); f = ts.frame(st, inp)
        fix = [v == c for v, c in zip(ffvec(ts, st), r)] + [inp["rst"] == 0]
        passing = [i for i in range(N) if Q(*fix, z3.Not(owns(f, i))) == "unsat"]
        owner[r] = passing
    ok = all(len(v) == 1 for v in owner.values())
    # non-preemption + next-owner
    res = []
    for r in R:
        if len(owner[r]) != 1: continue
        i = owner[r][0]; it = intrs[i]
        frames, cons = unroll(ts, 2, init="free", tag="N"); f0, f1 = frames
        fix = [v == c for v, c in zip(ffvec(ts, f0.state), r)] + cons
        busy = B(f0.sig(it.cyc))
        if hasattr(bus, "lock"):
            lk = B(f0.sig(it.lock)) if hasattr(it, "lock") else z3.BoolVal(False)
            busy = z3.And(busy, z3.Or(lk, B(f0.sig(it.stb))))
        nxt = ffvec(ts, f1.state)
        def is_state(vec, rr): return z3.And(*[a == b for a, b in zip(vec, rr)])
        # expected next owner
        exp = z3.BoolVal(False)
        order = [(i + k) % N for k in range(1, N)]
        stay = is_state(nxt, r)
        e = stay
        for j in reversed(order):
            rj = [rr for rr in R if owner[rr] == [j]][0]
            e = z3.If(B(f0.sig(intrs[j].cyc)), is_state(nxt, rj), e)
        expn = z3.If(busy, stay, e)
        res.append(Q(*fix, z3.Not(expn)))
    return ok, owner, res

t0 = time.time()
F = lambda *a: frozenset(a)
print(run(2, F(), [F(), F()], 8, [8, 32]))
print(run(3, F("lock", "err"), [F("lock", "err", "stall"), F("err"), F("err", "rty", "lock", "cti")], 8, [8, 16, 32]))
print(run(3, F("lock", "stall", "cti", "bte", "err", "rty"), [F("err", "rty", "stall")]*3, 16, [16, 32, 16]))
print(run(4, F("stall"), [F("stall"), F(), F("stall", "lock"), F()], 32, [32]*4))
print(f"{time.time()-t0:.1f}s")
