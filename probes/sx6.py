import warnings; warnings.simplefilter("ignore")
import z3, time, sys
import amaranth_soc.memory as M
import amaranth_soc.csr.reg as RG
from amaranth_soc import csr
import symex
from symex import *
M.isinstance = sym_isinstance; M.range = RangeStub
RG.isinstance = sym_isinstance
class Reg(csr.Register, access="rw"):
    def __init__(self, w): super().__init__({"f": csr.Field(csr.action.RW, w)})
def clog2(n): return max(0, (n - 1).bit_length())
def harness(aw, dw, gran, widths, explicit):
    ratio = dw // gran
    def h(E):
        b = csr.Builder(addr_width=aw, data_width=dw, granularity=gran)
        regs = [Reg(w) for w in widths]; offs = []
        for i, (r, ex) in enumerate(zip(regs, explicit)):
            o = E.int(f"o{i}", 0, (1 << aw) * ratio + 4) if ex else None
            try:
                b.add(f"r{i}", r, offset=o)
                offs.append(o)
            except ValueError:
                E.prove(o % ratio != 0, "add refused a legal offset"); raise PathAbort()
            if o is not None: E.prove(o % ratio == 0, "add accepted misaligned offset")
        try:
            mm = b.as_memory_map()
        except ValueError:
            return   # rejection: (overlap/overflow) -- completeness of rejection checked below only for success
        got = {id(r): (s, e) for r, _, (s, e) in mm.resources()}
        prev_end = 0
        for r, w, o in zip(regs, widths, offs):
            c_ = (w + dw - 1) // dw; size = 1 if c_ <= 1 else 1 << (c_ - 1).bit_length()
            s_, e_ = got[id(r)]
            E.prove(e_ - s_ == size, "size")
            if o is not None:
                E.prove(s_ * ratio == o, "explicit offset")
            else:
                E.prove(s_ >= prev_end, "after prev"); E.prove(s_ % size == 0, "aligned"); E.prove(s_ - prev_end < size, "first aligned")
            prev_end = e_
        names = [n for _, n, _ in sorted(((s, n, e) for r, n, (s, e) in mm.resources()), key=lambda x: 0)]
    return h
import itertools
t0 = time.time(); tot = 0
for (aw, dw, gran) in [(4, 8, 8), (4, 16, 8), (5, 32, 8)]:
    for widths in [(8, 20, 8), (33, 1, 16), (0, 9, 64)]:
        for explicit in itertools.product([False, True], repeat=3):
            E = Engine().explore(harness(aw, dw, gran, widths, explicit), max_paths=20000); tot += E.paths
            if E.failures: print((aw, dw, gran), widths, explicit, "FAIL", sorted(set(f[0] for f in E.failures)))
print("paths", tot, f"{time.time()-t0:.1f}s")
