from typing import Optional
from amaranth.lib import wiring
from amaranth_soc.memory import MemoryMap

class Res(wiring.Component):
    def __init__(self):
        super().__init__({})

R = [Res() for _ in range(4)]

def step(s0: int, z0: int, s1: int, z1: int, a2: int, z2: int, use_addr: bool) -> bool:
    """
    pre: 0 <= s0 < 16 and 0 <= z0 <= 16 and 0 <= s1 < 16 and 0 <= z1 <= 16
    pre: 0 <= a2 <= 20 and 0 <= z2 <= 20
    post: _
    """
    mm = MemoryMap(addr_width=4, data_width=8, alignment=1)
    try:
        mm.add_resource(R[0], name="a", addr=s0, size=z0)
        mm.add_resource(R[1], name="b", addr=s1, size=z1)
    except ValueError:
        return True
    before = list(mm.resources())
    nxt = mm._next_addr
    try:
        st, en = mm.add_resource(R[2], name="c", addr=a2 if use_addr else None, size=z2)
    except ValueError:
        return list(mm.resources()) == before and mm._next_addr == nxt
    rs = [(a, b) for _, _, (a, b) in mm.resources()]
    ok = all(rs[i][1] <= rs[i+1][0] for i in range(len(rs)-1))
    ok = ok and 0 <= st < en <= 16 and en - st >= z2 and st % 2 == 0 and (en-st) % 2 == 0
    if use_addr:
        ok = ok and st == a2
    return ok
