import warnings; warnings.simplefilter("ignore")
import random, time, z3
from amaranth import *
from amaranth.sim import Simulator
from amaranth.lib import wiring
from amaranth_soc import csr, gpio, wishbone
from amaranth_soc.wishbone.sram import WishboneSRAM
from nir2smt import TS, unroll, bv

def port_signals(comp):
    out = []
    for path, member, sig in comp.signature.flatten(comp):
        out.append(sig)
    return out

def crosscheck(make, cycles=40, seed=1):
    rnd = random.Random(seed)
    dut = make()
    ports = port_signals(dut)
    ts = TS(dut, ports)
    # identify input signals: those netlist top inputs
    nl = ts.netlist
    in_sigs = []
    out_sigs = []
    for s in ports:
        v = nl.signals[s]
        if len(v) and v[0].is_cell and v[0].cell == 0:
            in_sigs.append(s)
        else:
            out_sigs.append(s)
    name_of = {}
    for pname, (start, width) in ts.inputs.items():
        for s in in_sigs:
            v = nl.signals[s]
            if len(v) and v[0].bit == start:
                name_of[id(s)] = pname
    stim = [{id(s): rnd.getrandbits(len(s)) for s in in_sigs} for _ in range(cycles)]
    # pysim
    dut2 = dut  # same object elaborated twice fails for mux; so use fresh for sim
    dut2 = make.__call__() if False else None
    trace = []
    sim_dut = make()
    sports = port_signals(sim_dut)
    pidx = {id(s): i for i, s in enumerate(ports)}
    sin = [sports[pidx[id(s)]] for s in in_sigs]
    sout = [sports[pidx[id(s)]] for s in out_sigs]
    sim = Simulator(sim_dut)
    sim.add_clock(1e-6)
    async def tb(ctx):
        for t in range(cycles):
            for s_orig, s in zip(in_sigs, sin):
                ctx.set(s, stim[t][id(s_orig)])
            trace.append([ctx.get(s) for s in sout])
            await ctx.tick()
    sim.add_testbench(tb)
    sim.run()
    # z3 concrete eval
    st = ts.reset_state()
    mism = 0
    for t in range(cycles):
        inp = {}
        for pname, (start, width) in ts.inputs.items():
            inp[pname] = bv(width, 0)
        for s in in_sigs:
            inp[name_of[id(s)]] = bv(len(s), stim[t][id(s)])
        f = ts.frame(st, inp)
        for s, exp in zip(out_sigs, trace[t]):
            if len(s) == 0: continue
            got = z3.simplify(f.sig(s)).as_long()
            if got != (exp & ((1 << len(s)) - 1)):
                mism += 1
                if mism < 5: print("MISMATCH t", t, s.name, got, exp)
        st = {k: z3.simplify(v) for k, v in f.next_state().items()}
    print(type(dut).__name__, "cells", len(nl.cells), "ffs", len(ts.ffs), "in", len(in_sigs), "out", len(out_sigs), "mismatches", mism)

crosscheck(lambda: gpio.Peripheral(pin_count=5, addr_width=4, data_width=8, input_stages=2))
crosscheck(lambda: WishboneSRAM(size=16, data_width=32, granularity=8, init=range(4)))
crosscheck(lambda: WishboneSRAM(size=8, data_width=16, granularity=8, writable=False, init=[7,8,9,10]))
