import warnings; warnings.simplefilter("ignore")
import sys, z3
from amaranth.lib import wiring
import amaranth_soc.memory as M
from symex import *

M.isinstance = sym_isinstance
M.range = RangeStub

class Res(wiring.Component):
    def __init__(self): super().__init__({})
R = [Res() for _ in range(6)]

def harness(AW, AL, NPRE, use_addr_pattern):
    def h(E):
        mm = M.MemoryMap(addr_width=AW, data_width=8, alignment=AL)
        for i in range(NPRE):
            a = E.int(f"a{i}", 0, 40) if use_addr_pattern[i] else None
            z = E.int(f"z{i}", 0, 40)
            try:
                mm.add_resource(R[i], name=f"r{i}", addr=a, size=z)
            except ValueError:
                pass
        before = [(id(r), s, e) for r, _, (s, e) in mm.resources()]
        nxt = mm._next_addr
        a = E.int("A", 0, 40) if use_addr_pattern[NPRE] else None
        z = E.int("Z", 0, 40)
        try:
            st, en = mm.add_resource(R[NPRE], name="new", addr=a, size=z)
        except ValueError:
            after = [(id(r), s, e) for r, _, (s, e) in mm.resources()]
            E.prove(len(after) == len(before), "atomic: count")
            for x, y in zip(before, after):
                E.prove((x[1] == y[1]) & (x[2] == y[2]) if isinstance(x[1] == y[1], SymBool) or isinstance(x[2]==y[2], SymBool) else (x[1]==y[1] and x[2]==y[2]), "atomic: ranges")
            E.prove(mm._next_addr == nxt, "atomic: cursor")
            return
        rs = [(s, e) for _, _, (s, e) in mm.resources()]
        for i in range(len(rs) - 1):
            E.prove(rs[i][1] <= rs[i + 1][0], "sorted disjoint")
        E.prove(0 <= st, "lo"); E.prove(st < en, "nonempty"); E.prove(en <= (1 << AW), "hi")
        E.prove(en - st >= z, "size"); E.prove(st % (1 << AL) == 0, "align start"); E.prove((en - st) % (1 << AL) == 0, "align size")
        E.prove(en - st < z + (1 << AL) + (1 if True else 0), "size minimal")
        if a is not None:
            E.prove(st == a, "explicit honoured")
        else:
            E.prove(st >= nxt, "after cursor"); E.prove(st - nxt < (1 << AL), "first aligned")
        E.prove(mm._next_addr == en, "cursor advanced")
    return h

import itertools, time
tot = 0; t0 = time.time()
for AL in (0, 1, 2):
    for pat in itertools.product([False, True], repeat=3):
        E = Engine().explore(harness(4, AL, 2, pat))
        tot += E.paths
        print(AL, pat, "paths", E.paths, "queries", E.queries, f"{E.wall:.2f}s", "FAIL" if E.failures else "ok", [f[0] for f in E.failures][:3])
print("total paths", tot, f"{time.time()-t0:.1f}s")
