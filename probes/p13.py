import warnings; warnings.simplefilter("ignore")
import time, z3
from amaranth import *
from amaranth.lib import wiring
from amaranth_soc import csr, event, gpio, wishbone
from amaranth_soc.wishbone.sram import WishboneSRAM
from nir2smt import TS, unroll, bv
def ports_of(*objs):
    out = []
    for o in objs: out += [s for _,_,s in o.signature.flatten(o)]
    return out
def check(name, s, *neg):
    s.push(); s.add(z3.Or(*neg)); r = s.check(); s.pop(); print(f"  {name}: {r}")
def B(x): return x == 1

# ---- C15 SRAM exact step
for size, dw, g, wr in [(8, 32, 8, True), (4, 16, 16, True), (8, 16, 8, False), (16, 64, 16, True)]:
    t0 = time.time()
    sr = WishboneSRAM(size=size, data_width=dw, granularity=g, writable=wr)
    ts = TS(sr, ports_of(sr)); wb = sr.wb_bus
    frames, cons = unroll(ts, 2, init="free", tag="S"); f0, f1 = frames
    s = z3.Solver(); s.add(cons)
    (mi, mem), = ts.mems.items()
    M0 = [f0.state[("mem", mi, r)] for r in range(mem.depth)]; M1 = [f1.state[("mem", mi, r)] for r in range(mem.depth)]
    req = z3.And(B(f0.sig(wb.cyc)), B(f0.sig(wb.stb)), z3.Not(B(f0.sig(wb.ack))))
    print(f"SRAM size={size} dw={dw} g={g} writable={wr}")
    check("ack'", s, B(f1.sig(wb.ack)) != req)
    adr = f0.sig(wb.adr); sel = f0.sig(wb.sel); we = B(f0.sig(wb.we)); dw_ = f0.sig(wb.dat_w)
    def rowsel(M, a):
        r = M[-1]
        for i in reversed(range(len(M) - 1)): r = z3.If(a == i, M[i], r)
        return r
    check("read", s, z3.And(req, z3.Not(we), f1.sig(wb.dat_r) != rowsel(M0, adr)))
    neg = []
    for r in range(mem.depth):
        lanes = []
        for l in range(dw // g):
            hit = z3.And(req, we, z3.BoolVal(wr), adr == r, B(z3.Extract(l, l, sel)))
            lanes.append(z3.If(hit, z3.Extract((l+1)*g-1, l*g, dw_), z3.Extract((l+1)*g-1, l*g, M0[r])))
        exp = lanes[0] if len(lanes) == 1 else z3.Concat(*reversed(lanes))
        neg.append(M1[r] != exp)
    check("mem'", s, *neg)
    print(f"  {time.time()-t0:.2f}s")

# ---- C16 GPIO: mode table after writes (free state), input delay
for pins, dw, stages in [(3, 8, 2), (5, 8, 0), (9, 8, 3), (5, 16, 1)]:
    t0 = time.time()
    g = gpio.Peripheral(pin_count=pins, addr_width=5, data_width=dw, input_stages=stages)
    ts = TS(g, ports_of(g)); bus = g.bus
    res = {i.path[-1][0]: i for i in g.bus.memory_map.all_resources()}
    print(f"GPIO pins={pins} dw={dw} stages={stages}", {k: (v.start, v.end) for k, v in res.items()})
    def write_reg(frames, t, info, value, width):
        # consecutive chunk writes starting at frame t; returns frame index where w_stb is visible at the register
        cs = []
        n = info.end - info.start
        vext = z3.ZeroExt(n * dw - width, value) if n * dw > width else value
        for j in range(n):
            f = frames[t + j]
            cs += [f.sig(bus.addr) == info.start + j, f.sig(bus.w_stb) == 1, f.sig(bus.r_stb) == 0, f.sig(bus.w_data) == z3.Extract((j+1)*dw-1, j*dw, vext)]
        return cs, t + n
    def idle(f): return [f.sig(bus.w_stb) == 0, f.sig(bus.r_stb) == 0]
    nm = res["Mode"].end - res["Mode"].start; no = res["Output"].end - res["Output"].start
    K = nm + no + 3
    frames, cons = unroll(ts, K, init="free", tag="G")
    s = z3.Solver(); s.add(cons)
    MV = z3.BitVec("MV", 2 * pins); OV = z3.BitVec("OV", pins)
    c1, t1 = write_reg(frames, 0, res["Mode"], MV, 2 * pins); c2, t2 = write_reg(frames, t1, res["Output"], OV, pins)
    s.add(c1 + c2)
    for f in frames[t2:]: s.add(idle(f))
    # Mode strobe lands at frame t1 (visible), storage updated at t1+1; Output strobe at t2, storage at t2+1
    fchk = frames[t2 + 1]
    neg = []
    for n in range(pins):
        mode = z3.Extract(2*n+1, 2*n, MV); o = z3.Extract(n, n, OV)
        exp_o = z3.If(mode == 2, bv(1, 0), o)
        exp_oe = z3.If(mode == 1, bv(1, 1), z3.If(mode == 2, ~o, bv(1, 0)))
        exp_alt = z3.If(mode == 3, bv(1, 1), bv(1, 0))
        neg += [fchk.sig(g.pins[n].o) != exp_o, fchk.sig(g.pins[n].oe) != exp_oe, z3.Extract(n, n, fchk.sig(g.alt_mode)) != exp_alt]
    check("mode table", s, *neg)
    # input delay
    ni = res["Input"].end - res["Input"].start
    K = stages + 2
    frames, cons = unroll(ts, K, init="free", tag="I")
    s = z3.Solver(); s.add(cons)
    fr = frames[stages]
    s.add(fr.sig(bus.addr) == res["Input"].start, fr.sig(bus.r_stb) == 1)
    neg = []
    rd = frames[stages + 1].sig(bus.r_data)
    for n in range(min(pins, dw)):
        neg.append(z3.Extract(n, n, rd) != frames[0].sig(g.pins[n].i))
    check("input delay", s, *neg)
    print(f"  {time.time()-t0:.2f}s")

# ---- C13 monitor
for modes in [("level", "rise", "fall"), ("fall", "fall", "level", "rise")]:
    em = event.EventMap(); srcs = [event.Source(trigger=m, path=(f"s{i}",)) for i, m in enumerate(modes)]
    for x in srcs: em.add(x)
    mon = event.Monitor(em)
    ts = TS(mon, ports_of(mon, *srcs))
    frames, cons = unroll(ts, 3, init="free", tag="E"); f0, f1, f2 = frames
    s = z3.Solver(); s.add(cons)
    neg = []
    for x in srcs:
        k = em.index(x); i0, i1 = f0.sig(x.i), f1.sig(x.i)
        exp = {"level": i1, "rise": ~i0 & i1, "fall": i0 & ~i1}[x.trigger.value]
        neg.append(f1.sig(x.trg) != exp)
        p1 = z3.Extract(k, k, f1.sig(mon.pending)); c1 = z3.Extract(k, k, f1.sig(mon.clear)); p2 = z3.Extract(k, k, f2.sig(mon.pending))
        neg.append(p2 != (f1.sig(x.trg) | (p1 & ~c1)))
    neg.append(B(f1.sig(mon.src.i)) != ((f1.sig(mon.enable) & f1.sig(mon.pending)) != 0))
    print("Monitor", modes); check("all", s, *neg)
