"""Prototype: Amaranth NIR netlist -> z3 transition system (probe for DESIGN.md)."""
import z3
from amaranth.hdl import Fragment, _nir
from amaranth.hdl._ir import build_netlist


class Unsupported(Exception):
    pass


def bv(width, val):
    return z3.BitVecVal(val, width)


class TS:
    def __init__(self, elaboratable, ports, name="top"):
        self.netlist = nl = build_netlist(Fragment.get(elaboratable, None), ports=list(ports), name=name)
        self.cells = nl.cells
        top = nl.top
        self.inputs = {}      # port name -> (start, width)
        self.bit2port = {}
        for pname, (start, width) in top.ports_i.items():
            self.inputs[pname] = (start, width)
            for b in range(width):
                self.bit2port[start + b] = (pname, b)
        self.ffs = {}         # cell idx -> FlipFlop
        self.mems = {}        # cell idx -> Memory
        self.wports = {}      # mem idx -> [cell idx]
        self.srports = {}     # cell idx -> SyncReadPort
        clk = set()
        for i, c in enumerate(nl.cells):
            if isinstance(c, _nir.FlipFlop):
                self.ffs[i] = c
                clk.add((c.clk, c.clk_edge))
                if c.arst != 0:
                    raise Unsupported("async reset")
            elif isinstance(c, _nir.Memory):
                self.mems[i] = c
                self.wports.setdefault(i, [])
            elif isinstance(c, _nir.SyncWritePort):
                self.wports.setdefault(c.memory, []).append(i)
                clk.add((c.clk, c.clk_edge))
            elif isinstance(c, _nir.SyncReadPort):
                self.srports[i] = c
                clk.add((c.clk, c.clk_edge))
            elif isinstance(c, (_nir.Top, _nir.Operator, _nir.Part, _nir.Matches, _nir.PriorityMatch,
                                _nir.AssignmentList, _nir.AsyncReadPort)):
                pass
            else:
                raise Unsupported(type(c).__name__)
        if len(clk) > 1:
            raise Unsupported(f"multiple clocks {clk}")

    # ---- state -------------------------------------------------------------------------------
    def reset_state(self):
        st = {}
        for i, c in self.ffs.items():
            st[("ff", i)] = bv(len(c.data), c.init)
        for i, c in self.mems.items():
            for row in range(c.depth):
                st[("mem", i, row)] = bv(c.width, c.init[row])
        for i, c in self.srports.items():
            st[("rp", i)] = bv(c.width, 0)
        return st

    def free_state(self, tag):
        st = {}
        for i, c in self.ffs.items():
            st[("ff", i)] = z3.BitVec(f"{tag}_ff{i}", len(c.data))
        for i, c in self.mems.items():
            for row in range(c.depth):
                st[("mem", i, row)] = z3.BitVec(f"{tag}_mem{i}_{row}", c.width)
        for i, c in self.srports.items():
            st[("rp", i)] = z3.BitVec(f"{tag}_rp{i}", c.width)
        return st

    def free_inputs(self, tag):
        return {p: z3.BitVec(f"{tag}_{p}", w) for p, (s, w) in self.inputs.items()}

    # ---- one frame ---------------------------------------------------------------------------
    def frame(self, state, inputs):
        return Frame(self, state, inputs)


class Frame:
    def __init__(self, ts, state, inputs):
        self.ts = ts
        self.state = state
        self.inputs = inputs
        self.cache = {}

    def cell_out(self, idx):
        """Whole output of a cell as a BV (width = number of output bits)."""
        if idx in self.cache:
            return self.cache[idx]
        c = self.ts.cells[idx]
        r = self._eval(idx, c)
        self.cache[idx] = r
        return r

    def net(self, net):
        if net == 0:
            return bv(1, 0)
        if net == 1:
            return bv(1, 1)
        if net.cell == 0:
            pname, b = self.ts.bit2port[net.bit]
            return z3.Extract(b, b, self.inputs[pname])
        out = self.cell_out(net.cell)
        return z3.Extract(net.bit, net.bit, out)

    def value(self, val):
        """nir.Value -> BV (LSB first nets)."""
        if len(val) == 0:
            return None
        pieces = []
        pos = 0
        n = len(val)
        while pos < n:
            net = val[pos]
            if net.is_const:
                v = 0
                q = pos
                while q < n and val[q].is_const:
                    v |= val[q].const << (q - pos)
                    q += 1
                pieces.append(bv(q - pos, v))
            else:
                cell, b0 = net.cell, net.bit
                q = pos + 1
                while q < n and val[q].is_cell and val[q].cell == cell and val[q].bit == b0 + (q - pos):
                    q += 1
                if cell == 0:
                    pname, pb = self.ts.bit2port[b0]
                    # stay inside one port
                    start, width = self.ts.inputs[pname]
                    q = min(q, pos + (width - pb))
                    src = self.inputs[pname]
                    pieces.append(z3.Extract(pb + (q - pos) - 1, pb, src))
                else:
                    src = self.cell_out(cell)
                    pieces.append(z3.Extract(b0 + (q - pos) - 1, b0, src))
            pos = q
        if len(pieces) == 1:
            return z3.simplify(pieces[0]) if False else pieces[0]
        return z3.Concat(*reversed(pieces))

    def bool(self, net):
        return self.net(net) == bv(1, 1)

    def _eval(self, idx, c):
        N = _nir
        if isinstance(c, N.Operator):
            ins = [self.value(v) for v in c.inputs]
            op = c.operator
            b2v = lambda b: z3.If(b, bv(1, 1), bv(1, 0))
            if len(ins) == 1:
                a, = ins
                if op == "~": return ~a
                if op == "-": return -a
                if op == "b": return b2v(a != 0)
                if op == "r|": return b2v(a != 0)
                if op == "r&": return b2v(a == bv(a.size(), -1))
                if op == "r^":
                    r = z3.Extract(0, 0, a)
                    for i in range(1, a.size()):
                        r = r ^ z3.Extract(i, i, a)
                    return r
            elif len(ins) == 2:
                a, b = ins
                if op == "+": return a + b
                if op == "-": return a - b
                if op == "*": return a * b
                if op == "&": return a & b
                if op == "|": return a | b
                if op == "^": return a ^ b
                if op in ("<<", "u>>", "s>>"):
                    w = a.size()
                    if b.size() < w:
                        bb = z3.ZeroExt(w - b.size(), b)
                        big = None
                    else:
                        bb = z3.Extract(w - 1, 0, b)
                        big = z3.UGE(b, bv(b.size(), w)) if b.size() > w or True else None
                        big = z3.UGE(b, bv(b.size(), w))
                    if op == "<<":
                        r = a << bb
                        return z3.If(big, bv(w, 0), r) if big is not None else r
                    if op == "u>>":
                        r = z3.LShR(a, bb)
                        return z3.If(big, bv(w, 0), r) if big is not None else r
                    if op == "s>>":
                        r = a >> bb
                        sign = z3.If(z3.Extract(w - 1, w - 1, a) == 1, bv(w, -1), bv(w, 0))
                        return z3.If(big, sign, r) if big is not None else r
                if op == "==": return b2v(a == b)
                if op == "!=": return b2v(a != b)
                if op == "u<": return b2v(z3.ULT(a, b))
                if op == "u>": return b2v(z3.UGT(a, b))
                if op == "u<=": return b2v(z3.ULE(a, b))
                if op == "u>=": return b2v(z3.UGE(a, b))
                if op == "s<": return b2v(a < b)
                if op == "s>": return b2v(a > b)
                if op == "s<=": return b2v(a <= b)
                if op == "s>=": return b2v(a >= b)
            elif op == "m":
                s, a, b = ins
                return z3.If(s == bv(1, 1), a, b)
            raise Unsupported(f"operator {op}")
        if isinstance(c, N.Part):
            v = self.value(c.value)
            off = self.value(c.offset)
            # result = (v >> (off*stride))[0:width], extending v as needed
            total = len(c.value) + c.width
            wide = max(total, off.size() + c.stride.bit_length() + 1)
            vext = z3.SignExt(wide - v.size(), v) if c.value_signed else z3.ZeroExt(wide - v.size(), v)
            sh = z3.ZeroExt(wide - off.size(), off) * bv(wide, c.stride)
            shifted = (vext >> sh) if c.value_signed else z3.LShR(vext, sh)
            return z3.Extract(c.width - 1, 0, shifted)
        if isinstance(c, N.Matches):
            v = self.value(c.value)
            alts = []
            for pat in c.patterns:
                if len(pat) == 0:
                    alts.append(z3.BoolVal(True))
                    continue
                mask = int("".join("0" if ch == "-" else "1" for ch in pat), 2)
                val = int("".join("1" if ch == "1" else "0" for ch in pat), 2)
                alts.append((v & bv(len(pat), mask)) == bv(len(pat), val))
            return z3.If(z3.Or(*alts) if alts else z3.BoolVal(False), bv(1, 1), bv(1, 0))
        if isinstance(c, N.PriorityMatch):
            en = self.bool(c.en)
            outs = []
            prev_any = z3.BoolVal(False)
            for net in c.inputs:
                b = self.bool(net)
                outs.append(z3.If(z3.And(en, b, z3.Not(prev_any)), bv(1, 1), bv(1, 0)))
                prev_any = z3.Or(prev_any, b)
            return outs[0] if len(outs) == 1 else z3.Concat(*reversed(outs))
        if isinstance(c, N.AssignmentList):
            cur = self.value(c.default)
            w = len(c.default)
            for a in c.assignments:
                val = self.value(a.value)
                lo, hi = a.start, a.start + len(a.value)
                if lo >= w:
                    continue
                if hi > w:
                    val = z3.Extract(w - lo - 1, 0, val)
                    hi = w
                parts = []
                if lo > 0:
                    parts.append(z3.Extract(lo - 1, 0, cur))
                parts.append(val)
                if hi < w:
                    parts.append(z3.Extract(w - 1, hi, cur))
                new = parts[0] if len(parts) == 1 else z3.Concat(*reversed(parts))
                cur = z3.If(self.bool(a.cond), new, cur)
            return cur
        if isinstance(c, N.FlipFlop):
            return self.state[("ff", idx)]
        if isinstance(c, N.SyncReadPort):
            return self.state[("rp", idx)]
        if isinstance(c, N.AsyncReadPort):
            return self.mem_read(c.memory, self.value(c.addr), self.state)
        raise Unsupported(type(c).__name__)

    def mem_read(self, mem_idx, addr, state):
        mem = self.ts.mems[mem_idx]
        r = bv(mem.width, 0)   # out of range reads: Amaranth pysim returns 0
        for row in reversed(range(mem.depth)):
            r = z3.If(addr == bv(addr.size(), row), state[("mem", mem_idx, row)], r)
        return r

    def next_state(self):
        ts = self.ts
        st = {}
        for i, c in ts.ffs.items():
            st[("ff", i)] = self.value(c.data)
        # memories: apply write ports in order
        newmem = {}
        for mi, mem in ts.mems.items():
            rows = [self.state[("mem", mi, r)] for r in range(mem.depth)]
            for wi in ts.wports[mi]:
                wp = ts.cells[wi]
                addr = self.value(wp.addr)
                data = self.value(wp.data)
                en = self.value(wp.en)
                gran = mem.width // len(wp.en) if len(wp.en) else mem.width
                for r in range(mem.depth):
                    hit = addr == bv(addr.size(), r)
                    lanes = []
                    for l in range(len(wp.en)):
                        lo, hi = l * gran, (l + 1) * gran - 1
                        lanes.append(z3.If(z3.And(hit, z3.Extract(l, l, en) == 1),
                                           z3.Extract(hi, lo, data), z3.Extract(hi, lo, rows[r])))
                    rows[r] = lanes[0] if len(lanes) == 1 else z3.Concat(*reversed(lanes))
            for r in range(mem.depth):
                st[("mem", mi, r)] = rows[r]
        for i, c in ts.srports.items():
            if c.transparent_for:
                raise Unsupported("transparent read port")
            en = self.bool(c.en)
            st[("rp", i)] = z3.If(en, self.mem_read(c.memory, self.value(c.addr), self.state), self.state[("rp", i)])
        return st

    def sig(self, signal):
        """Value of an amaranth Signal in this frame."""
        return self.value(self.ts.netlist.signals[signal])


def unroll(ts, k, init="reset", tag="t", rst_low=True):
    """k frames. Returns list of Frame. Inputs are free variables named <tag><i>_<port>."""
    st = ts.reset_state() if init == "reset" else ts.free_state(tag + "S0")
    frames = []
    cons = []
    for i in range(k):
        inp = ts.free_inputs(f"{tag}{i}")
        if rst_low and "rst" in inp:
            cons.append(inp["rst"] == 0)
        f = ts.frame(st, inp)
        frames.append(f)
        st = f.next_state()
    return frames, cons
