"""Prototype symbolic executor for pure-Python integer code (probe for DESIGN.md).

Runs the *real* functions with proxy ints; each `bool()` of a symbolic condition forks.
Exhaustive DFS over feasible paths by re-execution with a decision prefix.
"""
import builtins, z3, time


class PathAbort(BaseException):
    pass


class Concretized(BaseException):
    pass


_engine = None


def _lift(x):
    if isinstance(x, SymInt):
        return x.e
    if isinstance(x, bool):
        return z3.IntVal(int(x))
    if isinstance(x, int):
        return z3.IntVal(x)
    return None


def _mk(e):
    e = z3.simplify(e)
    if z3.is_int_value(e):
        return e.as_long()
    return SymInt(e)


def _mkb(e):
    e = z3.simplify(e)
    if z3.is_true(e):
        return True
    if z3.is_false(e):
        return False
    return SymBool(e)


def _pow2(e):
    # 2**e for a symbolic small exponent
    r = z3.IntVal(1 << 16)
    for k in reversed(range(16)):
        r = z3.If(e == k, z3.IntVal(1 << k), r)
    _engine.assume_side(z3.And(e >= 0, e < 16), "shift amount in [0,16)")
    return r


class SymBool:
    def __init__(self, e):
        self.e = e

    def __bool__(self):
        return _engine.branch(self.e)

    def __and__(self, o):
        return _mkb(z3.And(self.e, o.e if isinstance(o, SymBool) else z3.BoolVal(bool(o))))
    __rand__ = __and__

    def __or__(self, o):
        return _mkb(z3.Or(self.e, o.e if isinstance(o, SymBool) else z3.BoolVal(bool(o))))
    __ror__ = __or__

    def __invert__(self):
        raise Concretized("~bool")


class SymInt:
    __slots__ = ("e",)

    def __init__(self, e):
        self.e = e

    def _bin(self, o, f, swap=False):
        oe = _lift(o)
        if oe is None:
            return NotImplemented
        a, b = (oe, self.e) if swap else (self.e, oe)
        return _mk(f(a, b))

    def __add__(self, o): return self._bin(o, lambda a, b: a + b)
    def __radd__(self, o): return self._bin(o, lambda a, b: a + b, True)
    def __sub__(self, o): return self._bin(o, lambda a, b: a - b)
    def __rsub__(self, o): return self._bin(o, lambda a, b: a - b, True)
    def __mul__(self, o): return self._bin(o, lambda a, b: a * b)
    def __rmul__(self, o): return self._bin(o, lambda a, b: a * b, True)

    @staticmethod
    def _posdiv(b):
        # python floor semantics == z3 euclidean semantics only for positive divisor
        if z3.is_int_value(b):
            if b.as_long() <= 0:
                raise Concretized("non-positive divisor")
        else:
            _engine.assume_side(b > 0, "divisor > 0")

    def __floordiv__(self, o):
        def f(a, b):
            self._posdiv(b); return a / b
        return self._bin(o, f)
    def __rfloordiv__(self, o):
        def f(a, b):
            self._posdiv(b); return a / b
        return self._bin(o, f, True)
    def __mod__(self, o):
        def f(a, b):
            self._posdiv(b); return a % b
        return self._bin(o, f)
    def __rmod__(self, o):
        def f(a, b):
            self._posdiv(b); return a % b
        return self._bin(o, f, True)
    def __lshift__(self, o): return self._bin(o, lambda a, b: a * (z3.IntVal(1 << b.as_long()) if z3.is_int_value(b) else _pow2(b)))
    def __rlshift__(self, o): return self._bin(o, lambda a, b: a * _pow2(b), True)
    def __rshift__(self, o): return self._bin(o, lambda a, b: a / (z3.IntVal(1 << b.as_long()) if z3.is_int_value(b) else _pow2(b)))
    def __neg__(self): return _mk(-self.e)
    def __pos__(self): return self

    def _cmp(self, o, f):
        oe = _lift(o)
        if oe is None:
            return NotImplemented
        return _mkb(f(self.e, oe))

    def __lt__(self, o): return self._cmp(o, lambda a, b: a < b)
    def __le__(self, o): return self._cmp(o, lambda a, b: a <= b)
    def __gt__(self, o): return self._cmp(o, lambda a, b: a > b)
    def __ge__(self, o): return self._cmp(o, lambda a, b: a >= b)
    def __eq__(self, o):
        oe = _lift(o)
        if oe is None:
            return False
        return _mkb(self.e == oe)
    def __ne__(self, o):
        oe = _lift(o)
        if oe is None:
            return True
        return _mkb(self.e != oe)

    def __bool__(self):
        return _engine.branch(self.e != 0)

    def __hash__(self):
        raise Concretized("hash of symbolic int")

    def __index__(self):
        raise Concretized("__index__ of symbolic int")
    __int__ = __index__

    def __format__(self, spec):
        return "<sym>"
    def __repr__(self):
        return "<sym>"
    __str__ = __repr__


class SymRange:
    """Stand-in for builtins.range with symbolic bounds (only attribute access and membership)."""
    def __init__(self, *args):
        if len(args) == 1:
            self.start, self.stop, self.step = 0, args[0], 1
        elif len(args) == 2:
            (self.start, self.stop), self.step = args, 1
        else:
            self.start, self.stop, self.step = args

    def __contains__(self, x):
        raise Concretized("in range")

    def __iter__(self):
        raise Concretized("iter range")


def sym_range(*args):
    if all(type(a) is int for a in args):
        return builtins.range(*args)
    return SymRange(*args)


class _RangeMeta(type):
    def __instancecheck__(cls, obj):
        return type(obj) in (builtins.range, SymRange)
    def __call__(cls, *args):
        return sym_range(*args)


class RangeStub(metaclass=_RangeMeta):
    pass


def sym_isinstance(obj, cls):
    if type(obj) is SymInt:
        if cls is int or (type(cls) is tuple and int in cls):
            return True
        return False
    return builtins.isinstance(obj, cls)


class Engine:
    def __init__(self, timeout_ms=10000):
        self.solver = z3.Solver()
        self.solver.set("timeout", timeout_ms)
        self.paths = 0
        self.queries = 0
        self.failures = []
        self.side = []

    # ---- API for harnesses ---------------------------------------------------------------
    def int(self, name, lo=None, hi=None):
        v = z3.Int(name)
        if name not in self._declared:
            self._declared[name] = v
        if lo is not None:
            self._assume(v >= lo)
        if hi is not None:
            self._assume(v <= hi)
        return SymInt(v)

    def _assume(self, e):
        self.pc.append(e)
        self.solver.add(e)

    def assume(self, cond):
        """Harness precondition: abandon the path where cond is false."""
        if isinstance(cond, SymBool):
            self.queries += 1
            r = str(self.solver.check(cond.e))
            if r == "unknown":
                raise RuntimeError("unknown")
            if r != "sat":
                raise PathAbort()
            self.solver.add(cond.e)
            self.pc.append(cond.e)
        elif not cond:
            raise PathAbort()

    def assume_side(self, e, why):
        # semantic side condition of the encoding itself: must be *implied* by the path, else unsupported
        self.queries += 1
        r = self.solver.check(z3.Not(e))
        if str(r) != "unsat":
            raise Concretized(f"side condition not implied: {why}")

    def prove(self, cond, msg):
        if isinstance(cond, SymBool):
            self.queries += 1
            r = self.solver.check(z3.Not(cond.e))
            if str(r) == "sat":
                self.failures.append((msg, self.solver.model()))
            elif str(r) == "unknown":
                raise RuntimeError("unknown")
        elif not cond:
            self.queries += 1
            assert str(self.solver.check()) == "sat"
            self.failures.append((msg, self.solver.model()))

    def branch(self, e):
        if self.pos < len(self.prefix):
            d = self.prefix[self.pos]
        else:
            self.queries += 2
            rt = str(self.solver.check(e))
            rf = str(self.solver.check(z3.Not(e)))
            if "unknown" in (rt, rf):
                raise RuntimeError("unknown")
            if rt == "sat" and rf == "sat":
                self.work.append(self.prefix[:self.pos] + [False] if False else self.taken + [False])
                d = True
            elif rt == "sat":
                d = True
            elif rf == "sat":
                d = False
            else:
                raise PathAbort()
        self.pos += 1
        self.taken.append(d)
        c = e if d else z3.Not(e)
        self.solver.add(c)
        self.pc.append(c)
        return d

    def explore(self, fn, max_paths=1000000):
        global _engine
        _engine = self
        self.work = [[]]
        t0 = time.time()
        while self.work:
            self.prefix = self.work.pop()
            self.pos = 0
            self.taken = []
            self.pc = []
            self._declared = {}
            self.depth_push = 0
            self.solver.push()
            try:
                fn(self)
            except PathAbort:
                pass
            finally:
                for _ in range(self.depth_push):
                    self.solver.pop()
                self.solver.pop()
            self.paths += 1
            if self.paths >= max_paths:
                break
        self.wall = time.time() - t0
        return self
