import warnings; warnings.simplefilter("ignore")
import time, z3
from amaranth import *
from amaranth_soc import csr, event
from nir2smt import TS, unroll, bv
def B(x): return x == 1
def run(n, dw, al, modes):
    em = event.EventMap(); srcs = [event.Source(trigger=modes[i % len(modes)], path=(f"s{i}",)) for i in range(n)]
    for x in srcs: em.add(x)
    mon = csr.EventMonitor(em, data_width=dw, alignment=al)
    dec = csr.Decoder(addr_width=mon.bus.addr_width + 1, data_width=dw); dec.add(mon.bus, name="ev")
    m = Module(); m.submodules.mon = mon; m.submodules.dec = dec
    bus = dec.bus
    ports = [s for _,_,s in dec.signature.flatten(dec)] + [x.i for x in srcs] + [x.trg for x in srcs] + [mon.src.i]
    ts = TS(m, ports)
    res = {i.path[-1][0]: i for i in bus.memory_map.all_resources()}
    pe = res["pending"]; en = res["enable"]
    nch = pe.end - pe.start
    need = (n + dw - 1) // dw        # chunks carrying bits
    t0 = time.time()
    # window: [read pending: nch cycles][write pending W: nch cycles][strobe cycle][read pending: nch cycles] + 1
    K = 3 * nch + 3
    frames, cons = unroll(ts, K, init="free", tag="W"); s = z3.Solver(); s.set("timeout", 20000); s.add(cons); print("frames built", time.time()-t0)
    W = z3.BitVec("Wv", nch * dw)
    def rd(t0_, j): f = frames[t0_ + j]; s.add(f.sig(bus.addr) == pe.start + j, B(f.sig(bus.r_stb)), z3.Not(B(f.sig(bus.w_stb))))
    def wr(t0_, j): f = frames[t0_ + j]; s.add(f.sig(bus.addr) == pe.start + j, B(f.sig(bus.w_stb)), z3.Not(B(f.sig(bus.r_stb))), f.sig(bus.w_data) == z3.Extract((j+1)*dw-1, j*dw, W))
    ta = 0; tw = nch; ts_ = 2 * nch; tb = 2 * nch + 1
    for j in range(nch): rd(ta, j); wr(tw, j); rd(tb, j)
    f = frames[ts_]; s.add(z3.Not(B(f.sig(bus.w_stb))), z3.Not(B(f.sig(bus.r_stb))))
    def snap(t0_):
        parts = [frames[t0_ + j + 1].sig(bus.r_data) for j in range(nch)]
        v = parts[0] if nch == 1 else z3.Concat(*reversed(parts))
        return v
    Pa = snap(ta); Pb = snap(tb)
    # fold
    P = Pa
    for t in range(ta, tb):
        trg = z3.Concat(*reversed([frames[t].sig(x.trg) for x in srcs])) if n > 1 else frames[t].sig(srcs[0].trg)
        trg = z3.ZeroExt(nch * dw - n, trg)
        el = pe.resource.element
        wd = frames[t].sig(el.w_data); wd = z3.ZeroExt(nch * dw - n, wd)
        clr = z3.If(B(frames[t].sig(el.w_stb)), wd, bv(nch * dw, 0))
        P = trg | (P & ~clr)
    mask = bv(nch * dw, (1 << n) - 1)
    print("fold built", time.time()-t0)
    for nm, mk in [("qfbv", lambda: z3.Tactic("qfbv").solver()), ("QF_BV", lambda: z3.SolverFor("QF_BV")), ("default-noninc", lambda: z3.Solver())]:
        s2 = mk(); s2.set("timeout", 60000); s2.add(s.assertions()); s2.add((Pb & mask) != (P & mask)); t1 = time.time(); r1 = s2.check(); print("   ", nm, r1, f"{time.time()-t1:.2f}s")
    s.push(); s.add((Pb & ~mask) != 0); r2 = s.check(); s.pop()
    el = pe.resource.element
    s.push(); s.add(z3.Or(z3.Not(B(frames[ts_].sig(el.w_stb))), z3.ZeroExt(nch*dw-n, frames[ts_].sig(el.w_data)) != (W & mask), *[B(frames[t].sig(el.w_stb)) for t in range(1, tb + nch) if t != ts_])); r3 = s.check(); s.pop()
    print("   strobe/data at ts only:", r3)
    # src.i at read time vs E: write enable first? here check src.i@ta == any(enable & snap) needs E; use separate window
    print(f"n={n} dw={dw} al={al} chunks={nch}: W1C fold {r1}, high bits zero {r2}, {time.time()-t0:.2f}s")
run(3, 8, 0, ["level"]); run(3, 8, 0, ["rise", "fall", "level"]); run(9, 8, 0, ["rise", "level", "fall"]); run(9, 8, 2, ["level", "fall"]); 
