import warnings; warnings.simplefilter("ignore")
import time, z3
from amaranth import *
from amaranth.lib import wiring
from amaranth.lib.wiring import In, Out
from amaranth_soc import csr
from amaranth_soc.memory import MemoryMap
from nir2smt import TS, unroll, bv

class Reg(wiring.Component):
    def __init__(self, width, access):
        super().__init__({"element": Out(csr.Element.Signature(width, access))})
    def elaborate(self, platform): return Module()

def build(dw, layout, ov):
    mm = MemoryMap(addr_width=4, data_width=dw)
    regs = []
    for (w, acc, addr) in layout:
        r = Reg(w, acc); regs.append(r)
        mm.add_resource(r, name=f"r{len(regs)}", size=(w + dw - 1)//dw, addr=addr)
    mux = csr.Multiplexer(mm, shadow_overlaps=ov)
    ports = [s for _,_,s in mux.signature.flatten(mux)]
    for r in regs:
        ports += [s for _,_,s in r.signature.flatten(r)]
    return mux, regs, mm, TS(mux, ports)

def check_read_atomic(dw, layout, ov, K):
    mux, regs, mm, ts = build(dw, layout, ov)
    t0 = time.time()
    nq = 0
    for R in regs:
        if not R.element.access.readable(): continue
        info = mm.find_resource(R)
        n = info.end - info.start
        frames, cons = unroll(ts, K + 1, init="free")
        s = z3.Solver()
        s.add(cons)
        bus = mux.bus
        f0 = frames[0]
        s.add(f0.sig(bus.addr) == info.start, f0.sig(bus.r_stb) == 1)
        snap = f0.sig(R.element.r_data) if R.element.width else None
        # protocol for frames 1..K-1: strobes only at addresses of R, ascending reads > previous read addr, or unmapped
        mapped = lambda a: z3.Or(*[z3.And(z3.UGE(a, i.start), z3.ULT(a, i.end)) for i in mm.all_resources()])
        last = bv(8, info.start)
        viol = []
        for t in range(1, K):
            f = frames[t]
            a = z3.ZeroExt(4, f.sig(bus.addr)); rs = f.sig(bus.r_stb) == 1; ws = f.sig(bus.w_stb) == 1
            inR = z3.And(z3.UGE(a, info.start), z3.ULT(a, info.end))
            s.add(z3.Implies(z3.Or(rs, ws), z3.Or(inR, z3.Not(mapped(a)))))
            s.add(z3.Implies(z3.And(rs, inR), z3.UGT(a, last)))
            last = z3.If(z3.And(rs, inR), a, last)
            # expected data next frame
            nxt = frames[t + 1].sig(bus.r_data)
            for j in range(1, n):
                lo = j * dw; hi = min((j + 1) * dw, R.element.width)
                if lo >= R.element.width:
                    exp = bv(dw, 0)
                else:
                    exp = z3.ZeroExt(dw - (hi - lo), z3.Extract(hi - 1, lo, snap))
                viol.append(z3.And(rs, a == info.start + j, nxt != exp))
            viol.append(z3.And(z3.Not(z3.And(rs, inR)), nxt != 0))
        s.add(z3.Or(*viol))
        r = s.check(); nq += 1
        print("  reg", info.path, (info.start, info.end), "->", r)
        if str(r) == "sat":
            m = s.model()
            for t in range(K):
                f = frames[t]
                print("   t", t, {n_: m.eval(f.sig(getattr(bus, n_)), model_completion=True) for n_ in ("addr", "r_stb", "w_stb", "r_data")})
    print(f"dw={dw} layout={layout} ov={ov} K={K}: {nq} queries {time.time()-t0:.2f}s")

check_read_atomic(8, [(8, "rw", None), (20, "rw", 1), (16, "r", 5), (30, "rw", 8)], None, 8)
check_read_atomic(8, [(8, "rw", None), (20, "rw", 1), (16, "r", 5), (30, "rw", 8)], 1, 8)
check_read_atomic(8, [(24, "rw", 0), (20, "rw", 5), (16, "r", 9), (30, "rw", 12)], 0, 10)
