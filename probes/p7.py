import warnings; warnings.simplefilter("ignore")
import time, z3
from amaranth import *
from amaranth.lib import wiring
from amaranth.lib.wiring import In, Out, connect, flipped
from amaranth_soc import csr, wishbone
from amaranth_soc.csr.wishbone import WishboneCSRBridge
from amaranth_soc.wishbone.sram import WishboneSRAM
from amaranth_soc.memory import MemoryMap
from nir2smt import TS, unroll, bv

class Reg(csr.Register, access="rw"):
    def __init__(self, w): super().__init__({"f": csr.Field(csr.action.RW, w)})

class Top(wiring.Component):
    def __init__(self):
        self.regs = []
        def periph(widths, aw):
            b = csr.Builder(addr_width=aw, data_width=8)
            for i, w in enumerate(widths):
                r = Reg(w); self.regs.append(r); b.add(f"r{i}", r)
            return csr.Bridge(b.as_memory_map())
        self.p1 = periph([8, 20], 3)
        self.p2 = periph([12, 8, 32], 4)
        self.cdec = csr.Decoder(addr_width=6, data_width=8)
        self.cdec.add(self.p1.bus, name="p1")
        self.cdec.add(self.p2.bus, name="p2")
        self.wbcsr = WishboneCSRBridge(self.cdec.bus, data_width=32, name="csr")
        self.sram = WishboneSRAM(size=16, data_width=32, granularity=8)
        self.wdec = wishbone.Decoder(addr_width=6, data_width=32, granularity=8)
        self.wdec.add(self.sram.wb_bus, name="sram")
        self.wdec.add(self.wbcsr.wb_bus)
        super().__init__({"bus": In(self.wdec.bus.signature.flip())}) if False else super().__init__({"bus": In(wishbone.Signature(addr_width=6, data_width=32, granularity=8))})
        self.bus.memory_map = self.wdec.bus.memory_map
    def elaborate(self, platform):
        m = Module()
        m.submodules.p1 = self.p1; m.submodules.p2 = self.p2; m.submodules.cdec = self.cdec
        m.submodules.wbcsr = self.wbcsr; m.submodules.sram = self.sram; m.submodules.wdec = self.wdec
        connect(m, flipped(self.bus), self.wdec.bus)
        return m

top = Top()
for ri in top.bus.memory_map.all_resources():
    print(ri.path, ri.start, ri.end, ri.width)
ports = [s for _,_,s in top.signature.flatten(top)]
t0 = time.time()
ts = TS(top, ports)
print("cells", len(ts.cells), "ffs", len(ts.ffs), "ffbits", sum(len(c.data) for c in ts.ffs.values()), f"build {time.time()-t0:.2f}s")
nl = ts.netlist
# BMC: one WB write transfer from reset with symbolic adr/sel/data, held until ack; then check registers' internal storage 'data' outputs
K = 8
frames, cons = unroll(ts, K, init="reset")
s = z3.Solver(); s.add(cons)
b = top.bus
adr = z3.BitVec("ADR", 6); sel = z3.BitVec("SEL", 4); dat = z3.BitVec("DAT", 32)
# request held until ack (ack observed), then dropped
done = z3.BoolVal(False)
acks = []
for t, f in enumerate(frames):
    active = z3.Not(done)
    s.add(f.sig(b.cyc) == z3.If(active, bv(1,1), bv(1,0)), f.sig(b.stb) == z3.If(active, bv(1,1), bv(1,0)))
    s.add(f.sig(b.adr) == adr, f.sig(b.sel) == sel, f.sig(b.dat_w) == dat, f.sig(b.we) == 1)
    a = f.sig(b.ack) == 1
    acks.append(a)
    done = z3.Or(done, a)
# property: for each register R (8-bit CSR granules at root granule address range [start,end)), w_stb on element happens iff last granule selected...
viol = []
for R in top.regs:
    info = top.bus.memory_map.find_resource(R)
    last = info.end - 1
    lane = last % 4; word = last // 4
    exp = z3.And(adr == word, z3.Extract(lane, lane, sel) == 1)
    got = z3.Or(*[f.sig(R.element.w_stb) == 1 for f in frames])
    viol.append(exp != got)
s.add(z3.Or(*viol))
t0 = time.time(); r = s.check(); print("w_stb routing:", r, f"{time.time()-t0:.2f}s")
# ack exactness: unmapped -> never acked; sram -> acked
s2 = z3.Solver(); s2.add(cons); 
for a_ in s.assertions()[:-1]: pass
s3 = z3.Solver(); s3.add(cons)
for a_ in list(s.assertions())[:-1]: s3.add(a_)
print("assumptions alone:", s3.check())
s3.push(); s3.add(z3.Or(*[f.sig(top.regs[1].element.w_stb) == 1 for f in frames])); t0=time.time(); print("witness reg1 w_stb reachable:", s3.check(), f"{time.time()-t0:.2f}s")
m = s3.model(); print(" adr", m.eval(adr), "sel", m.eval(sel), [str(m.eval(f.sig(b.ack))) for f in frames]); s3.pop()
# mutate expectation to see detection: expect wrong word
s3.push(); info = top.bus.memory_map.find_resource(top.regs[1]); last = info.end-1
s3.add(z3.And(adr == last//4, z3.Extract(last%4, last%4, sel) == 1) != z3.Or(*[f.sig(top.regs[1].element.w_stb) == 1 for f in frames])); print("negated prop for reg1:", s3.check()); s3.pop()
s3.push(); s3.add(z3.And(adr == last//4 + 1, z3.Extract(last%4, last%4, sel) == 1) != z3.Or(*[f.sig(top.regs[1].element.w_stb) == 1 for f in frames])); print("wrong oracle:", s3.check()); s3.pop()
