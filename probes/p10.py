import warnings; warnings.simplefilter("ignore")
import time, z3
from amaranth import *
from amaranth_soc import wishbone
from nir2smt import TS, unroll, bv

def build(N, feats):
    arb = wishbone.Arbiter(addr_width=4, data_width=16, granularity=8, features=feats)
    intrs = [wishbone.Interface(addr_width=4, data_width=16, granularity=8 if i % 2 else 16, features=feats, path=(f"i{i}",)) for i in range(N)]
    for i in intrs: arb.add(i)
    ports = [s for _,_,s in arb.signature.flatten(arb)]
    for i in intrs: ports += [s for _,_,s in i.signature.flatten(i)]
    return arb, intrs, TS(arb, ports)

def ffvec(ts, st):
    return [st[("ff", i)] for i in sorted(ts.ffs)]

def reachable(ts):
    # exact forward reachability over the full FF state (small)
    init = ts.reset_state()
    reach = [tuple(z3.simplify(v).as_long() for v in ffvec(ts, init))]
    frontier = list(reach)
    while frontier:
        cur = frontier.pop()
        while True:
            st = ts.free_state("R")
            inp = ts.free_inputs("Ri")
            f = ts.frame(st, inp)
            nxt = f.next_state()
            s = z3.Solver()
            if "rst" in inp: s.add(inp["rst"] == 0)
            for v, c in zip(ffvec(ts, st), cur): s.add(v == c)
            nv = ffvec(ts, nxt)
            for r in reach:
                s.add(z3.Or(*[a != b for a, b in zip(nv, r)]) if nv else z3.BoolVal(False))
            if str(s.check()) != "sat": break
            m = s.model()
            new = tuple(m.eval(a, model_completion=True).as_long() for a in nv)
            reach.append(new); frontier.append(new)
    return reach

for N in (2, 3, 4):
    for feats in ((), ("lock",), ("lock", "stall", "err")):
        t0 = time.time()
        arb, intrs, ts = build(N, feats)
        R = reachable(ts)
        # lasso: from any reachable state, L = len(R)+1 steps, initiator j requests always, never acked-owner... 
        L = len(R) + 1
        res = []
        for j in range(N):
            frames, cons = unroll(ts, L + 1, init="free", tag=f"l{j}")
            s = z3.Solver(); s.add(cons)
            st0 = ffvec(ts, frames[0].state)
            s.add(z3.Or(*[z3.And(*[a == c for a, c in zip(st0, r)]) for r in R]))
            released = []
            for t in range(L):
                f = frames[t]
                s.add(f.sig(intrs[j].cyc) == 1)
                # j is never owner: owner observed as: with bus.ack forced 1, intr.ack==1
                s.add(f.sig(arb.bus.ack) == 1)
                s.add(f.sig(intrs[j].ack) == 0)
                busy = f.sig(arb.bus.cyc) == 1
                if "lock" in feats:
                    busy = z3.And(busy, z3.Or(f.sig(arb.bus.lock) == 1, f.sig(arb.bus.stb) == 1))
                released.append(z3.Not(busy))
            # loop: state at L equals state at some k<L and a release happens within [k, L)
            stL = ffvec(ts, frames[L].state)
            loops = []
            for k in range(L):
                stk = ffvec(ts, frames[k].state)
                loops.append(z3.And(*[a == b for a, b in zip(stL, stk)], z3.Or(*released[k:L])))
            s.add(z3.Or(*loops))
            res.append(str(s.check()))
        print(N, feats, "reachable", R, "lasso", res, f"{time.time()-t0:.2f}s")
