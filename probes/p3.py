import warnings; warnings.simplefilter("ignore")
import sys
from amaranth import *
from amaranth.hdl import Fragment
from amaranth.lib import wiring
from amaranth.lib.wiring import In, Out
from amaranth_soc import csr
from amaranth_soc.memory import MemoryMap
class Reg(wiring.Component):
    def __init__(self, width, access):
        super().__init__({"element": Out(csr.Element.Signature(width, access))})
    def elaborate(self, platform): return Module()
for ov in (None, 0, 1, 2):
    mm = MemoryMap(addr_width=4, data_width=8)
    mm.add_resource(Reg(8,"rw"), name="b", size=1)
    mm.add_resource(Reg(16,"rw"), name="a", size=2)
    mux = csr.Multiplexer(mm, shadow_overlaps=ov)
    try:
        Fragment.get(mux, None); print(ov, "ok", mux._r_shadow.size, {k:[tuple(r) for r in c.registers()] for k,c in mux._r_shadow.chunks()})
    except BaseException as e:
        print(ov, "FAIL", type(e).__name__)
