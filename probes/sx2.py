import warnings; warnings.simplefilter("ignore")
import z3, builtins, itertools, time
from amaranth.lib import wiring
import amaranth_soc.memory as M
import symex
from symex import *

ALPHA = ["a", "b", "ab", "0", 0, 1]      # alphabet of name parts
STRS  = sorted(set(str(x) for x in ALPHA))
RANK  = [STRS.index(str(x)) for x in ALPHA]
ISSTR = [isinstance(x, str) for x in ALPHA]

def tbl(idx, vals):
    r = z3.IntVal(vals[-1])
    for k in reversed(range(len(vals) - 1)):
        r = z3.If(idx == k, z3.IntVal(vals[k]), r)
    return r

class SymStr(str):
    def __new__(cls, rank):
        o = str.__new__(cls, "<symstr>"); o.rank = rank; return o
    def __eq__(self, o): return symex._mkb(self.rank == o.rank)
    def __ne__(self, o): return symex._mkb(self.rank != o.rank)
    def __lt__(self, o): return symex._mkb(self.rank < o.rank)
    def __gt__(self, o): return symex._mkb(self.rank > o.rank)
    def __le__(self, o): return symex._mkb(self.rank <= o.rank)
    def __ge__(self, o): return symex._mkb(self.rank >= o.rank)
    __hash__ = lambda self: 0

class SymPart:
    def __init__(self, idx): self.idx = idx
    def __eq__(self, o):
        if isinstance(o, SymPart): return symex._mkb(self.idx == o.idx)
        return False
    def __ne__(self, o):
        if isinstance(o, SymPart): return symex._mkb(self.idx != o.idx)
        return True
    def __hash__(self): return 0
    def __str__(self): return SymStr(tbl(self.idx, RANK))
    def __bool__(self): return True
    def __ge__(self, o): return True   # part >= 0 for ints
    def __repr__(self): return "<part>"

def isinst(obj, cls):
    if type(obj) is SymPart:
        if cls is str: return symex._mkb(tbl(obj.idx, [int(b) for b in ISSTR]) == 1)
        if cls is int: return symex._mkb(tbl(obj.idx, [int(b) for b in ISSTR]) == 0)
        return False
    return builtins.isinstance(obj, cls)
M.isinstance = isinst

class Res(wiring.Component):
    def __init__(self): super().__init__({})

def conflict(n1, n2):
    k = min(len(n1), len(n2))
    c = z3.BoolVal(True)
    for i in range(k): c = z3.And(c, n1[i].idx == n2[i].idx)
    return c

def harness(lens):
    def h(E):
        names = []
        for j, L in enumerate(lens):
            names.append(tuple(SymPart(E.int(f"n{j}_{i}", 0, len(ALPHA) - 1).e) for i in range(L)))
        mm = M.MemoryMap(addr_width=8, data_width=8)
        accepted = []
        for j, nm in enumerate(names):
            exp_conf = z3.Or(*[conflict(nm, a) for a in accepted]) if accepted else z3.BoolVal(False)
            try:
                mm.add_resource(Res(), name=nm, size=1)
                E.prove(symex._mkb(z3.Not(exp_conf)), f"accepted conflicting name #{j}")
                accepted.append(nm)
            except ValueError:
                E.prove(symex._mkb(exp_conf), f"refused legal name #{j}")
    return h

tot=0; t0=time.time()
import sys
for lens in [(1,1),(1,2),(2,1),(2,2),(1,1,1),(2,2,2)]:
    E = Engine().explore(harness(lens), max_paths=20000); tot += E.paths; sys.stdout.flush()
    print(lens, "paths", E.paths, "queries", E.queries, f"{E.wall:.2f}s", "FAIL" if E.failures else "ok", [f[0] for f in E.failures][:2])
print(tot, f"{time.time()-t0:.1f}s")
