"""Query discharge for E1: fresh non-incremental solver per query, reset-rooting of free-state
counterexamples, replay on Amaranth's own Python simulator, co-simulation of the translator."""
import hashlib
import random
import time

import z3

from .nir2smt import TS, unroll, bv, Unsupported, raw

QUERY_TIMEOUT_MS = 120_000
RLIMIT_PER_MS = 10_000            # z3 spends about 8.6e6 resource units per second on these queries (measured)
WALL_BACKSTOP_FACTOR = 6


class Inconclusive(Exception):
    """Solver said unknown / timeout / encoding could not be trusted: exit code 2."""


# ---------------------------------------------------------------------------------------------------
# harness = one concrete configuration, built through the public constructors
# ---------------------------------------------------------------------------------------------------
class Harness:
    """Holds the design under test and every object predicates refer to.

    ``build()`` of a subclass / factory must be deterministic: replay re-creates a *fresh* instance
    for the simulator and maps port ``i`` of one instance to port ``i`` of the other.
    """
    def __init__(self, top, ports, **objs):
        self.top = top
        self.env = set(getattr(ports, "env", ()))
        self.ports = list(ports)
        self.mems = objs.pop("mems", [])     # [(MemoryData, hint)]
        self.__dict__.update(objs)
        self.ts = None

    def translate(self):
        if self.ts is None:
            self.ts = TS(self.top, self.ports, env=self.env)
            self.ts.bind_memories(self.mems)
        return self.ts


class Ports(list):
    """List of port signals; ``env`` = ids of the signals the environment (testbench) drives."""
    def __init__(self, it=()):
        super().__init__(it)
        self.env = set()

    def __add__(self, other):
        r = Ports(list(self) + list(other))
        r.env = set(self.env) | set(getattr(other, "env", ()))
        return r


def flat_ports(*objs, env="in"):
    """All signals of the given interface objects / components (``signature.flatten``).

    env="in": the environment drives the members whose flow is In relative to the object's own
    signature (a component's inputs; the response side of a plain initiator-oriented interface
    handed to a decoder).  env="out": the environment drives the Out members (plain interfaces on
    which the design under test is the target: arbiter initiators, event sources).
    A port the environment does not drive and the design does not drive either stays at its init.
    """
    from amaranth.lib.wiring import In
    out = Ports()
    seen = set()
    for o in objs:
        for path, member, s in o.signature.flatten(o):
            s = raw(s)
            if id(s) not in seen:
                seen.add(id(s))
                out.append(s)
                if (member.flow == In) == (env == "in"):
                    out.env.add(id(s))
    return out


# ---------------------------------------------------------------------------------------------------
# solving
# ---------------------------------------------------------------------------------------------------
class Stats:
    def __init__(self):
        self.queries = 0
        self.unsat = 0
        self.sat = 0
        self.twins = 0
        self.twins_sat = 0
        self.unrooted = 0
        self.solver_s = 0.0
        self.hashes = set()
        self.nontrivial = set()
        self.samples = []
        self.cosim_cycles = 0
        self.cosim_runs = 0
        self.replays = 0
        self.encoded = {}
        self.notes = []

    def merge(self, o):
        for k in ("queries", "unsat", "sat", "twins", "twins_sat", "unrooted", "cosim_cycles",
                  "cosim_runs", "replays"):
            setattr(self, k, getattr(self, k) + getattr(o, k))
        self.solver_s += o.solver_s
        self.hashes |= o.hashes
        self.nontrivial |= o.nontrivial
        if len(self.samples) < 6:
            self.samples.extend(o.samples[: 6 - len(self.samples)])
        for k, v in o.encoded.items():
            if k == "cvc5_cross_checked":
                self.encoded[k] = self.encoded.get(k, 0) + v
            else:
                self.encoded[k] = max(self.encoded.get(k, 0), v) if isinstance(v, int) else v
        for n in o.notes:
            if n not in self.notes and len(self.notes) < 20:
                self.notes.append(n)


CROSS_CHECK = 0            # 0 = off; N = re-decide every query whose AST hash is divisible by N with cvc5
VIOLATION_SEEN = None      # multiprocessing.Event shared by the workers of one check (set by common.run_check)


KNOWN_KEYS = set()         # keys of committed known findings: these never trigger the early exit


def mark_violation(key=None):
    if key is not None and key in KNOWN_KEYS:
        return
    if VIOLATION_SEEN is not None:
        VIOLATION_SEEN.set()


def solve(assertions, stats=None, label=None, timeout_ms=QUERY_TIMEOUT_MS, want_model=True, soft=False):
    """Decide the conjunction with a FRESH QF_BV solver. Returns ('unsat', None) or ('sat', model)."""
    goal = z3.And(*assertions) if len(assertions) != 1 else assertions[0]
    simp = goal        # NOT z3.simplify(goal): the rewriter can blow up on deep reset-rooted unrollings
    s = z3.SolverFor("QF_BV")
    # The budget of a query is a RESOURCE limit (deterministic, independent of how loaded the machine is), sized so that
    # on an idle core it corresponds to roughly `timeout_ms`; the wall-clock timeout is only a backstop, several times
    # larger.  (A wall-clock budget alone made two heavy C14 queries come back "unknown" when the machine was busy
    # with other work: 11 s idle, > 120 s under load.)
    s.set("rlimit", int(timeout_ms * RLIMIT_PER_MS))
    s.set("timeout", int(timeout_ms * WALL_BACKSTOP_FACTOR))
    s.add(simp)
    t0 = time.time()
    # (a hard wall-clock limit per configuration is enforced by the parent process in common.py)
    r = str(s.check())
    dt = time.time() - t0
    if stats is not None:
        stats.queries += 1
        stats.solver_s += dt
        h = f"{goal.hash():08x}"     # structural AST hash (printing a deep DAG is too slow)
        stats.hashes.add(h)
        if not (z3.is_true(goal) or z3.is_false(goal)):
            stats.nontrivial.add(h)
        if r == "unsat":
            stats.unsat += 1
        elif r == "sat":
            stats.sat += 1
    if r == "unknown" and soft:
        return "unknown", None
    if r == "unknown":
        r2 = _cvc5_fallback(s)
        if r2 is None:
            raise Inconclusive(f"solver returned unknown for {label}: {s.reason_unknown()}")
        if r2 == "unsat":
            if stats is not None:
                stats.unsat += 1
            return "unsat", None
        raise Inconclusive(f"z3 unknown, cvc5 {r2} for {label}; no model available")
    if CROSS_CHECK and stats is not None and r in ("sat", "unsat") and (goal.hash() % CROSS_CHECK) == 0 and dt < 20:
        # thorough tier: a deterministic sample of queries is re-decided by cvc5 (independent solver)
        try:
            txt = s.to_smt2()
            r2 = cvc5_check(txt, 60_000) if len(txt) < 3_000_000 else None
        except Exception:
            r2 = None
        if r2 is not None:
            stats.encoded["cvc5_cross_checked"] = stats.encoded.get("cvc5_cross_checked", 0) + 1
            if r2 != r:
                raise Inconclusive(f"z3 says {r}, cvc5 says {r2} for {label}")
    if r == "sat":
        m = s.model()
        # model validation: a QF_BV solver handed a non-bit-vector term can answer nonsense
        if not z3.is_true(m.eval(goal, model_completion=True)):
            raise Inconclusive(f"solver model does not satisfy the query {label} (non-QF_BV term in the encoding?)")
        return "sat", (m if want_model else None)
    return "unsat", None


def _cvc5_fallback(z3solver):
    try:
        import cvc5
    except Exception:
        return None
    try:
        return cvc5_check(z3solver.to_smt2(), 120_000)
    except Exception:
        return None


def cvc5_check(smt2_text, timeout_ms=60_000):
    """Re-decide an SMT-LIB2 text with the cvc5 wheel. Returns 'sat' / 'unsat' / None."""
    import cvc5
    slv = cvc5.Solver()
    slv.setOption("tlimit-per", str(timeout_ms))
    slv.setLogic("QF_BV")
    parser = cvc5.InputParser(slv)
    parser.setStringInput(cvc5.InputLanguage.SMT_LIB_2_6, smt2_text, "q")
    sm = parser.getSymbolManager()
    res = None
    while True:
        cmd = parser.nextCommand()
        if cmd.isNull():
            break
        out = cmd.invoke(slv, sm)
        o = str(out).strip()
        if o in ("sat", "unsat", "unknown"):
            res = o
    return res if res in ("sat", "unsat") else None


def cross_check_cvc5(assertions, expected, stats=None):
    s = z3.SolverFor("QF_BV")
    s.add(z3.And(*assertions))
    r = cvc5_check(s.to_smt2())
    if r is not None and r != expected:
        raise Inconclusive(f"z3 says {expected}, cvc5 says {r}")
    return r


# ---------------------------------------------------------------------------------------------------
# simulator replay
# ---------------------------------------------------------------------------------------------------
class _TraceFrame:
    """Dry-run frame: records which signals a predicate reads."""
    def __init__(self, rec):
        self.rec = rec

    def sig(self, signal):
        signal = raw(signal)
        self.rec[id(signal)] = signal
        n = len(signal)
        return z3.BitVec(f"dry_{id(signal)}", n) if n else None

    def mem_row(self, md, row):
        self.rec[("mem", id(md), row)] = (md, row)
        from amaranth.hdl import Shape
        return z3.BitVec(f"dry_m{id(md)}_{row}", Shape.cast(md.shape).width)


class SimFrame:
    """Frame backed by simulator observations (constants)."""
    def __init__(self, values):
        self.values = values

    def sig(self, signal):
        signal = raw(signal)
        n = len(signal)
        if n == 0:
            return None
        return bv(n, self.values[id(signal)] & ((1 << n) - 1))

    def mem_row(self, md, row):
        from amaranth.hdl import Shape
        n = Shape.cast(md.shape).width
        return bv(n, self.values[("mem", id(md), row)] & ((1 << n) - 1))


def simulate(h, stimulus, observe):
    """Run the design of harness ``h`` (never elaborated before) on pysim from reset.

    stimulus: list (one per cycle) of {port index in h.ports: value}.  observe: list of Signals.
    Returns per-cycle dict id(signal) -> int (sampled after the inputs of the cycle have settled).
    """
    from amaranth import Module, Signal, ClockDomain
    from amaranth.sim import Simulator
    m = Module()
    uses_rst = any("rst" in step for step in stimulus)
    if uses_rst:
        m.domains.sync = cd = ClockDomain()
    m.submodules.dut = h.top
    keep = Signal()
    m.d.sync += keep.eq(~keep)
    sim = Simulator(m)
    sim.add_clock(1e-6)
    trace = []

    async def tb(ctx):
        for step in stimulus:
            if uses_rst:
                ctx.set(cd.rst, int(step.get("rst", 0)))
            for idx, val in step.items():
                if idx == "rst":
                    continue
                s = h.ports[int(idx)]
                if len(s):
                    ctx.set(s, val)
            row = {}
            for s in observe:
                if isinstance(s, tuple):
                    md, r = s
                    row[("mem", id(md), r)] = int(ctx.get(md[r]))
                elif len(s):
                    v = ctx.get(s)
                    row[id(s)] = int(v) & ((1 << len(s)) - 1)
            trace.append(row)
            await ctx.tick()
    sim.add_testbench(tb)
    sim.run()
    return trace


def model_stimulus(ts, frames, model):
    stim = []
    for f in frames:
        step = {}
        for pname, idx in ts.input_port_index.items():
            if pname not in f.inputs:
                continue
            v = model.eval(f.inputs[pname], model_completion=True)
            step[str(idx)] = v.as_long()
        if "rst" in f.inputs and model.eval(f.inputs["rst"], model_completion=True).as_long():
            step["rst"] = 1
        stim.append(step)
    return stim


def fresh(make):
    """A new instance for the simulator, built the way the checks build theirs: after a warm-up instance of
    the same configuration has been elaborated once (so that replay sees the same process history)."""
    from amaranth.hdl import Fragment
    try:
        Fragment.get(make().top, None)
    except Exception:
        pass
    return make()


def replay_on_sim(make, build, k, stimulus, prefix):
    """Re-create the design, simulate ``stimulus`` from reset, evaluate the window predicate
    on the observed values.  Returns (reproduced: bool, details)."""
    h2 = fresh(make)
    rec = {}
    dry = [_TraceFrame(rec) for _ in range(k)]
    build(h2, dry)
    observe = list(rec.values())
    trace = simulate(h2, stimulus, observe)
    frames = [SimFrame(row) for row in trace[prefix:prefix + k]]
    assumes, bad = build(h2, frames)
    a = z3.simplify(z3.And(*assumes)) if assumes else z3.BoolVal(True)
    b = z3.simplify(bad)
    ok = z3.is_true(a) and z3.is_true(b)
    return ok, {"assumptions_hold": str(a), "violation_observed": str(b)}


# ---------------------------------------------------------------------------------------------------
# deciding one window query
# ---------------------------------------------------------------------------------------------------
class Violation:
    def __init__(self, query, stimulus, prefix, k, detail):
        self.query = query
        self.stimulus = stimulus
        self.prefix = prefix
        self.k = k
        self.detail = detail


EXTRA_PREFIX = 6
# a state behind a long set-up (a counter that has to run out) is looked for with a few long prefixes as well: idle
# cycles can pad any shorter set-up
LONG_PREFIXES = [20, 40, 80, 160, 320, 640]
ROOT_BUDGET_S = 240


def rst_of(frame):
    """the reset input of a symbolic frame as a Bool, or None (simulator frames: the recorded stimulus already
    carries it; netlists without a reset input)"""
    inp = getattr(frame, "inputs", None)
    if inp is None or "rst" not in inp:
        return None
    return inp["rst"] == 1


def decide(make, h, name, k, build, stats, init="free", max_prefix=6, twin=None, sample=None, rst_free=False):
    """Decide one window property.

    make()        -> fresh Harness (for replay);  h: Harness already translated.
    build(h, frames) -> (assumptions, bad) where ``bad`` is the NEGATED property over ``k`` frames.
    init='free': the window starts in an arbitrary state (covers every history); a counterexample is
    accepted only after it has been rooted at reset (prefix of <= max_prefix unconstrained cycles) and
    reproduced on the simulator.  twin(h, frames) -> (assumptions, event): must be satisfiable.
    Returns None or a Violation.
    """
    ts = h.translate()
    frames, cons = unroll(ts, k, init=init, tag="w", rst_free=rst_free)
    assumes, bad = build(h, frames)
    twin_failed = None
    r, model = solve(cons + list(assumes) + [bad], stats, name)
    if sample is not None and len(stats.samples) < 6:
        stats.samples.append(dict(sample, query=name, frames=k, init=init, verdict=r))
    if twin is not None:
        stats.twins += 1
        ta, ev = twin(h, frames)
        rt, _ = solve(cons + list(ta) + [ev], None, name + "/twin", want_model=False)
        if rt != "sat":
            # an unreachable event makes an "unsat" verdict vacuous; a counterexample of the main query, if it can be
            # rooted at reset and reproduced on the simulator, stands on its own
            twin_failed = f"vacuity twin of {name} is {rt}: the harness cannot reach the event"
            if r != "sat":
                raise Inconclusive(twin_failed)
        else:
            stats.twins_sat += 1
    if r == "unsat":
        return None
    # candidate counterexample
    if init != "reset" and VIOLATION_SEEN is not None and VIOLATION_SEEN.is_set():
        stats.notes.append("a violation of this property was already confirmed on the simulator for another "
                           "configuration; further free-state counterexamples were not rooted (time bound)")
        return None
    # prefixes 0..max_prefix are always tried; up to EXTRA_PREFIX longer ones while the rooting of this query has used
    # less than ROOT_BUDGET_S (a state that needs a longer set-up - e.g. several register writes - is still found;
    # nothing of this runs on a tree where the free-state query is unsat)
    prefixes = [0] if init == "reset" else list(range(0, max_prefix + 1 + EXTRA_PREFIX)) + \
        [p_ for p_ in LONG_PREFIXES if p_ > max_prefix + EXTRA_PREFIX]
    undecided = 0
    t_root = time.process_time()          # CPU time of this process: the budget must not depend on how busy the machine is
    for p in prefixes:
        if p > max_prefix and time.process_time() - t_root > ROOT_BUDGET_S:
            break
        if init == "reset":
            rframes, rcons, rmodel = frames, cons, model
        else:
            rframes, rcons = unroll(ts, p + k, init="reset", tag="r", rst_free=rst_free)
            ra, rbad = build(h, rframes[p:])
            rr, rmodel = solve(rcons + list(ra) + [rbad], stats, f"{name}/root{p}", timeout_ms=45_000, soft=True)
            if rr == "unknown":
                undecided += 1
                if undecided >= 2 and p > max_prefix:
                    break               # longer unrollings will not be easier
                continue
            if rr != "sat":
                continue
        stim = model_stimulus(ts, rframes, rmodel)
        ok, detail = replay_on_sim(make, build, k, stim, p)
        stats.replays += 1
        if not ok:
            raise Inconclusive(f"counterexample of {name} does not reproduce on the simulator: {detail}")
        return Violation(name, stim, p, k, detail)
    if undecided:
        raise Inconclusive(f"{name}: free-state counterexample exists but {undecided} rooting queries timed out")
    if twin_failed:
        raise Inconclusive(twin_failed)
    stats.unrooted += 1
    stats.notes.append(f"{name}: free-state counterexample not reachable from reset within "
                       f"{p} cycles; reset-rooted bounded verdict holds (all-state strengthening failed)")
    return None


# ---------------------------------------------------------------------------------------------------
# translator validation: co-simulation against pysim
# ---------------------------------------------------------------------------------------------------
def cosim(make, cycles=24, seed=0, stats=None, extra=lambda h: []):
    rnd = random.Random(seed)
    h = make()
    ts = h.translate()
    nl = ts.netlist
    in_idx = set(ts.input_port_index.values())
    observed_idx = [i for i, s in enumerate(h.ports) if i not in in_idx and len(s) and ts.has(s)]
    stim = [{str(i): rnd.getrandbits(len(h.ports[i])) for i in sorted(in_idx)} for _ in range(cycles)]
    h2 = make()
    extra1, extra2 = list(extra(h)), list(extra(h2))
    observe2 = [h2.ports[i] for i in observed_idx] + extra2
    trace = simulate(h2, stim, observe2)
    observe1 = [h.ports[i] for i in observed_idx] + extra1
    st = ts.reset_state()
    idx2name = {v: k for k, v in ts.input_port_index.items()}
    for t in range(cycles):
        inp = {p: bv(w, 0) for p, (s, w) in ts.inputs.items() if w > 0}
        for i, v in stim[t].items():
            p = idx2name[int(i)]
            if ts.inputs[p][1] > 0:
                inp[p] = bv(ts.inputs[p][1], v)
        f = ts.frame(st, inp)
        for s1, s2 in zip(observe1, observe2):
            got = z3.simplify(f.sig(s1))
            if not z3.is_bv_value(got):
                raise Inconclusive(f"co-simulation: {s1.name} does not evaluate to a constant")
            exp = trace[t][id(s2)]
            if got.as_long() != exp:
                raise Inconclusive(f"translator disagrees with pysim at cycle {t} on {s1.name}: "
                                   f"encoding {got.as_long():#x} simulator {exp:#x}")
        st = {k: z3.simplify(v) for k, v in f.next_state().items()}
    if stats is not None:
        stats.cosim_runs += 1
        stats.cosim_cycles += cycles


# ---------------------------------------------------------------------------------------------------
# small helpers for predicates
# ---------------------------------------------------------------------------------------------------
def is1(x):
    return x == bv(1, 1)


def zext(x, w):
    return z3.ZeroExt(w - x.size(), x) if x.size() < w else x


def in_range(a, lo, hi, w=None):
    """lo <= a < hi for a BV ``a`` and Python ints, computed on a widened copy (no wrap)."""
    w = w or (a.size() + 2)
    aa = zext(a, w)
    return z3.And(z3.UGE(aa, bv(w, lo)), z3.ULT(aa, bv(w, hi)))


def slice_zext(x, lo, hi, width, out_w):
    """x[lo:hi] clipped to ``width`` bits of x, zero-extended to out_w (x may be None)."""
    hi = min(hi, width)
    if x is None or lo >= hi:
        return bv(out_w, 0)
    part = z3.Extract(hi - 1, lo, x)
    return zext(part, out_w)
