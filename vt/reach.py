"""Reachable set of the CONTROL PROJECTION of a transition system.

Control = the flip-flops narrower than ``narrow`` bits (sequencer counters, acknowledge/strobe registers); the wider
flip-flops (data registers) and all memories are left free in every pre-state, so the set computed is a superset of
the control valuations reachable from reset (exact whenever control transitions do not depend on the data registers,
which is what the all-SAT image iteration observes: it enumerates successors over ALL data values).  Used to anchor
free-state windows at "any reachable control state, any data": every history, without rooting false alarms.
"""
import z3

from .bmc import solve, Inconclusive
from .nir2smt import unroll, bv


class CtrlReach:
    def __init__(self, h, stats, narrow=8, limit=512):
        ts = h.translate()
        self.ts = ts
        reset = ts.reset_state()
        self.keys = [("ff", i) for i in sorted(ts.ffs) if reset[("ff", i)].size() < narrow]
        init = tuple(z3.simplify(reset[k]).as_long() for k in self.keys)
        self.states = [init]
        frontier = [init]
        self.queries = 0
        while frontier and self.keys:
            cur = frontier.pop(0)
            while True:
                frames, cons = unroll(ts, 1, init="free", tag="CR")
                f = frames[0]
                nxt = f.next_state()
                nv = [nxt[k] for k in self.keys]
                q = cons + [self._is(f.state, cur)] + [z3.Not(self._vec_is(nv, r)) for r in self.states]
                r, m = solve(q, stats, "ctrl-reach")
                self.queries += 1
                if r == "unknown":
                    raise Inconclusive("control-state reachability: solver gave up")
                if r != "sat":
                    break
                new = tuple(m.eval(a, model_completion=True).as_long() for a in nv)
                self.states.append(new)
                frontier.append(new)
                if len(self.states) > limit:
                    raise Inconclusive("reachable control state set larger than the limit")

    @staticmethod
    def _vec_is(vec, r):
        return z3.And(*[a == bv(a.size(), c) for a, c in zip(vec, r)]) if vec else z3.BoolVal(True)

    def _is(self, state, r):
        return self._vec_is([state[k] for k in self.keys], r)

    def member(self, frame):
        """constraint: the control flip-flops of ``frame``'s pre-state are one of the reachable valuations.
        Frames that are not symbolic (simulator replay: the state is reachable by construction) give True."""
        st = getattr(frame, "state", None)
        if st is None or not self.keys:
            return z3.BoolVal(True)
        return z3.Or(*[self._is(st, r) for r in self.states])
