"""E1: Amaranth NIR netlist -> z3 bit-vector transition system.

The component under test is built and elaborated by the repository's own generator code
(``Fragment.get`` runs every ``elaborate()``); Amaranth's compiler IR for the result
(``amaranth.hdl._ir.build_netlist``) is translated cell by cell.  Nothing is cached between runs.

Semantics fixed by this encoding (part of every claim made with it):
  * one clock domain, rising edge; ``rst`` (if the netlist has such an input) is held low;
  * "reset state" = the ``init`` values of flip-flops / memories / read-port registers;
  * an undriven signal that is not listed in ``ports`` is a constant equal to its ``init``.
Unsupported cells raise ``Unsupported`` (the check exits 2, never 0).
"""
import z3
from amaranth.hdl import Fragment, _nir
from amaranth.hdl._ir import build_netlist


class Unsupported(Exception):
    pass


def bv(width, val):
    return z3.BitVecVal(val, width)


def raw(signal):
    """Underlying Signal of a (possibly enum/struct view) signal-like object."""
    from amaranth.hdl import Value
    return Value.cast(signal)


def _b2v(b):
    return z3.If(b, bv(1, 1), bv(1, 0))


class TS:
    """Transition system of one elaborated design."""

    def __init__(self, elaboratable, ports, name="top", env=None, platform=None):
        ports = list(ports)
        self.ports = ports
        self.fragment = Fragment.get(elaboratable, platform)
        # Port directions are decided here, not by Amaranth's "is any net connected" heuristic (which
        # turns a port driven by a constant into a free input): a port is an input iff no statement of
        # any fragment assigns it and it is not a memory read-port output.
        driven = set()

        def walk(frag):
            for dom, stmts in frag.statements.items():
                for sgn in stmts._lhs_signals():
                    driven.add(id(sgn))
            rps = getattr(frag, "_read_ports", None)
            if rps is not None:
                for rp in rps:
                    d = getattr(rp, "_data", None)
                    if d is not None:
                        for sgn in d._lhs_signals():
                            driven.add(id(sgn))
            for sub, _n, _l in frag.subfragments:
                walk(sub)
        walk(self.fragment)
        self.driven = driven
        from amaranth.hdl._ir import PortDirection
        if env is not None:
            clash = [sgn.name for sgn in ports if id(sgn) in env and id(sgn) in driven]
            if clash:
                raise Unsupported(f"design drives signals the harness treats as environment inputs: {clash}")
            plist = [(None, sgn, PortDirection.Input if id(sgn) in env else PortDirection.Output)
                     for sgn in ports]
        else:
            plist = [(None, sgn, PortDirection.Output if id(sgn) in driven else PortDirection.Input)
                     for sgn in ports]
        self.design = self.fragment.prepare(ports=plist, hierarchy=(name,))
        self.netlist = nl = build_netlist(self.design)
        self.cells = nl.cells
        top = nl.top
        self.inputs = {}      # port name -> (start bit, width)
        self.bit2port = {}
        for pname, (start, width) in top.ports_i.items():
            self.inputs[pname] = (start, width)
            for b in range(width):
                self.bit2port[start + b] = (pname, b)
        # map input port name -> index into `ports` (for replaying stimulus on a fresh instance)
        self.input_port_index = {}
        by_id = {id(s): idx for idx, s in enumerate(ports)}
        for pname, signal, _dir in self.design.ports:
            if pname in self.inputs and id(signal) in by_id:
                self.input_port_index[pname] = by_id[id(signal)]
        self.ffs = {}
        self.mems = {}
        self.wports = {}
        self.srports = {}
        clk = set()
        for i, c in enumerate(nl.cells):
            if isinstance(c, _nir.FlipFlop):
                self.ffs[i] = c
                clk.add((c.clk, c.clk_edge))
                if c.arst != _nir.Net.from_const(0):
                    raise Unsupported("async reset")
            elif isinstance(c, _nir.Memory):
                self.mems[i] = c
                self.wports.setdefault(i, [])
            elif isinstance(c, _nir.SyncWritePort):
                self.wports.setdefault(c.memory, []).append(i)
                clk.add((c.clk, c.clk_edge))
            elif isinstance(c, _nir.SyncReadPort):
                self.srports[i] = c
                clk.add((c.clk, c.clk_edge))
                if c.transparent_for:
                    raise Unsupported("transparent read port")
            elif isinstance(c, (_nir.Top, _nir.Operator, _nir.Part, _nir.Matches, _nir.PriorityMatch,
                                _nir.AssignmentList, _nir.AsyncReadPort)):
                pass
            else:
                raise Unsupported(type(c).__name__)
        if len(clk) > 1:
            raise Unsupported(f"multiple clocks {clk}")

    def bind_memories(self, mems):
        """mems: list of (MemoryData, hint). hint None = the only memory; else a substring of the
        hierarchical module path / memory name of the NIR cell."""
        self.memmap = {}
        for md, hint in mems:
            cands = []
            for i, c in self.mems.items():
                path = "/".join(self.netlist.modules[c.module_idx].name) + "/" + str(c.name)
                if hint is None or hint in path:
                    cands.append(i)
            if len(cands) != 1:
                raise Unsupported(f"cannot identify memory {hint!r}: {len(cands)} candidates")
            self.memmap[id(md)] = cands[0]

    # ---- sizes (for evidence) ------------------------------------------------------------------
    def stats(self):
        return {"cells": len(self.cells), "ffs": len(self.ffs),
                "ff_bits": sum(len(c.data) for c in self.ffs.values()),
                "mem_bits": sum(c.depth * c.width for c in self.mems.values()),
                "inputs": len(self.inputs)}

    # ---- state -------------------------------------------------------------------------------
    def state_keys(self):
        for i, c in self.ffs.items():
            yield ("ff", i), len(c.data)
        for i, c in self.mems.items():
            for row in range(c.depth):
                yield ("mem", i, row), c.width
        for i, c in self.srports.items():
            yield ("rp", i), c.width

    def reset_state(self):
        st = {}
        for i, c in self.ffs.items():
            st[("ff", i)] = bv(len(c.data), c.init)
        for i, c in self.mems.items():
            for row in range(c.depth):
                st[("mem", i, row)] = bv(c.width, c.init[row])
        for i, c in self.srports.items():
            st[("rp", i)] = bv(c.width, 0)
        return st

    def free_state(self, tag):
        return {k: z3.BitVec(f"{tag}_{'_'.join(map(str, k))}", w) for k, w in self.state_keys()}

    def free_inputs(self, tag):
        return {p: z3.BitVec(f"{tag}_{p}", w) for p, (s, w) in self.inputs.items() if w > 0}

    def frame(self, state, inputs):
        return Frame(self, state, inputs)

    def has(self, signal):
        try:
            self.netlist.signals[raw(signal)]
            return True
        except KeyError:
            return False


class Frame:
    def __init__(self, ts, state, inputs):
        self.ts = ts
        self.state = state
        self.inputs = inputs
        self.cache = {}
        self._next = None

    # ---- nets / values ---------------------------------------------------------------------
    def cell_out(self, idx):
        r = self.cache.get(idx)
        if r is None:
            r = self._eval(idx, self.ts.cells[idx])
            self.cache[idx] = r
        return r

    def net(self, net):
        if net.is_const:
            return bv(1, net.const)
        if net.cell == 0:
            pname, b = self.ts.bit2port[net.bit]
            return z3.Extract(b, b, self.inputs[pname])
        return z3.Extract(net.bit, net.bit, self.cell_out(net.cell))

    def value(self, val):
        """nir.Value -> BV (None for a zero-width value)."""
        n = len(val)
        if n == 0:
            return None
        pieces = []
        pos = 0
        while pos < n:
            net = val[pos]
            if net.is_const:
                v = 0
                q = pos
                while q < n and val[q].is_const:
                    v |= val[q].const << (q - pos)
                    q += 1
                pieces.append(bv(q - pos, v))
            else:
                cell, b0 = net.cell, net.bit
                q = pos + 1
                while q < n and (not val[q].is_const) and val[q].cell == cell and val[q].bit == b0 + (q - pos):
                    q += 1
                if cell == 0:
                    pname, pb = self.ts.bit2port[b0]
                    start, width = self.ts.inputs[pname]
                    q = min(q, pos + (width - pb))
                    src = self.inputs[pname]
                    pieces.append(z3.Extract(pb + (q - pos) - 1, pb, src))
                else:
                    src = self.cell_out(cell)
                    pieces.append(z3.Extract(b0 + (q - pos) - 1, b0, src))
            pos = q
        if len(pieces) == 1:
            return pieces[0]
        return z3.Concat(*reversed(pieces))

    def bool(self, net):
        return self.net(net) == bv(1, 1)

    def sig(self, signal):
        """Value of an Amaranth Signal (looked up by object identity) in this frame."""
        return self.value(self.ts.netlist.signals[raw(signal)])

    # ---- cells -------------------------------------------------------------------------------
    def _eval(self, idx, c):
        N = _nir
        if isinstance(c, N.Operator):
            ins = [self.value(v) for v in c.inputs]
            op = c.operator
            if len(ins) == 1:
                a, = ins
                if a is None:       # zero-width operand
                    if op in ("b", "r|", "r^"): return bv(1, 0)
                    if op == "r&": return bv(1, 1)
                    return None
                if op == "~": return ~a
                if op == "-": return -a
                if op == "b": return _b2v(a != 0)
                if op == "r|": return _b2v(a != 0)
                if op == "r&": return _b2v(a == bv(a.size(), -1))
                if op == "r^":
                    r = z3.Extract(0, 0, a)
                    for i in range(1, a.size()):
                        r = r ^ z3.Extract(i, i, a)
                    return r
            elif len(ins) == 2:
                a, b = ins
                if a is None or b is None:
                    if a is None and b is None:
                        if op in ("==", "u<=", "u>=", "s<=", "s>="): return bv(1, 1)
                        if op in ("!=", "u<", "u>", "s<", "s>"): return bv(1, 0)
                        return None
                    if op in ("<<", "u>>", "s>>") and b is None:
                        return a
                    raise Unsupported(f"operator {op} with one zero-width operand")
                if op == "+": return a + b
                if op == "-": return a - b
                if op == "*": return a * b
                if op == "&": return a & b
                if op == "|": return a | b
                if op == "^": return a ^ b
                if op == "u//":
                    return z3.If(b == 0, bv(a.size(), 0), z3.UDiv(a, b))
                if op == "u%":
                    return z3.If(b == 0, bv(a.size(), 0), z3.URem(a, b))
                if op in ("<<", "u>>", "s>>"):
                    w = a.size()
                    if b.size() < w:
                        bb = z3.ZeroExt(w - b.size(), b)
                        big = z3.BoolVal(False)
                    else:
                        bb = z3.Extract(w - 1, 0, b) if b.size() > w else b
                        big = z3.UGE(b, bv(b.size(), w))
                    if op == "<<":
                        return z3.If(big, bv(w, 0), a << bb)
                    if op == "u>>":
                        return z3.If(big, bv(w, 0), z3.LShR(a, bb))
                    sign = z3.If(z3.Extract(w - 1, w - 1, a) == 1, bv(w, -1), bv(w, 0))
                    return z3.If(big, sign, a >> bb)
                if op == "==": return _b2v(a == b)
                if op == "!=": return _b2v(a != b)
                if op == "u<": return _b2v(z3.ULT(a, b))
                if op == "u>": return _b2v(z3.UGT(a, b))
                if op == "u<=": return _b2v(z3.ULE(a, b))
                if op == "u>=": return _b2v(z3.UGE(a, b))
                if op == "s<": return _b2v(a < b)
                if op == "s>": return _b2v(a > b)
                if op == "s<=": return _b2v(a <= b)
                if op == "s>=": return _b2v(a >= b)
            elif op == "m":
                s, a, b = ins
                return z3.If(s == bv(1, 1), a, b)
            raise Unsupported(f"operator {op}")
        if isinstance(c, N.Part):
            v = self.value(c.value)
            off = self.value(c.offset)
            total = len(c.value) + c.width
            wide = max(total, off.size() + c.stride.bit_length() + 1)
            vext = z3.SignExt(wide - v.size(), v) if c.value_signed else z3.ZeroExt(wide - v.size(), v)
            sh = z3.ZeroExt(wide - off.size(), off) * bv(wide, c.stride)
            big = z3.UGE(sh, bv(wide, wide))
            if c.value_signed:
                sign = z3.If(z3.Extract(wide - 1, wide - 1, vext) == 1, bv(wide, -1), bv(wide, 0))
                shifted = z3.If(big, sign, vext >> sh)
            else:
                shifted = z3.If(big, bv(wide, 0), z3.LShR(vext, sh))
            return z3.Extract(c.width - 1, 0, shifted)
        if isinstance(c, N.Matches):
            v = self.value(c.value)
            alts = []
            for pat in c.patterns:
                if len(pat) == 0:
                    alts.append(z3.BoolVal(True))
                    continue
                mask = int("".join("0" if ch == "-" else "1" for ch in pat), 2)
                val = int("".join("1" if ch == "1" else "0" for ch in pat), 2)
                if mask == 0:
                    alts.append(z3.BoolVal(True))
                else:
                    alts.append((v & bv(len(pat), mask)) == bv(len(pat), val))
            return _b2v(z3.Or(*alts) if alts else z3.BoolVal(False))
        if isinstance(c, N.PriorityMatch):
            en = self.bool(c.en)
            outs = []
            prev_any = z3.BoolVal(False)
            for net in c.inputs:
                b = self.bool(net)
                outs.append(_b2v(z3.And(en, b, z3.Not(prev_any))))
                prev_any = z3.Or(prev_any, b)
            return outs[0] if len(outs) == 1 else z3.Concat(*reversed(outs))
        if isinstance(c, N.AssignmentList):
            cur = self.value(c.default)
            w = len(c.default)
            for a in c.assignments:
                val = self.value(a.value)
                lo, hi = a.start, a.start + len(a.value)
                if lo >= w or val is None:
                    continue
                if hi > w:
                    val = z3.Extract(w - lo - 1, 0, val)
                    hi = w
                parts = []
                if lo > 0:
                    parts.append(z3.Extract(lo - 1, 0, cur))
                parts.append(val)
                if hi < w:
                    parts.append(z3.Extract(w - 1, hi, cur))
                new = parts[0] if len(parts) == 1 else z3.Concat(*reversed(parts))
                cur = z3.If(self.bool(a.cond), new, cur)
            return cur
        if isinstance(c, N.FlipFlop):
            return self.state[("ff", idx)]
        if isinstance(c, N.SyncReadPort):
            return self.state[("rp", idx)]
        if isinstance(c, N.AsyncReadPort):
            return self.mem_read(c.memory, self.value(c.addr))
        raise Unsupported(type(c).__name__)

    def mem_read(self, mem_idx, addr):
        mem = self.ts.mems[mem_idx]
        r = bv(mem.width, 0)   # out-of-range read: the simulator returns 0
        if addr is None:
            return self.state[("mem", mem_idx, 0)]
        for row in reversed(range(mem.depth)):
            if row >= (1 << addr.size()):
                continue
            r = z3.If(addr == bv(addr.size(), row), self.state[("mem", mem_idx, row)], r)
        return r

    def next_state(self):
        if self._next is not None:
            return self._next
        ts = self.ts
        st = {}
        for i, c in ts.ffs.items():
            st[("ff", i)] = self.value(c.data)
        for mi, mem in ts.mems.items():
            rows = [self.state[("mem", mi, r)] for r in range(mem.depth)]
            for wi in ts.wports[mi]:
                wp = ts.cells[wi]
                addr = self.value(wp.addr)
                data = self.value(wp.data)
                en = self.value(wp.en)
                nlanes = len(wp.en)
                gran = mem.width // nlanes if nlanes else mem.width
                for r in range(mem.depth):
                    if addr is None:
                        hit = z3.BoolVal(r == 0)
                    elif r >= (1 << addr.size()):
                        continue
                    else:
                        hit = addr == bv(addr.size(), r)
                    lanes = []
                    for l in range(nlanes):
                        lo, hi = l * gran, (l + 1) * gran - 1
                        lanes.append(z3.If(z3.And(hit, z3.Extract(l, l, en) == 1),
                                           z3.Extract(hi, lo, data), z3.Extract(hi, lo, rows[r])))
                    rows[r] = lanes[0] if len(lanes) == 1 else z3.Concat(*reversed(lanes))
            for r in range(mem.depth):
                st[("mem", mi, r)] = rows[r]
        for i, c in ts.srports.items():
            en = self.bool(c.en)
            st[("rp", i)] = z3.If(en, self.mem_read(c.memory, self.value(c.addr)), self.state[("rp", i)])
        self._next = st
        return st

    def mem_row(self, memory_data, row):
        """Content of one row of a memory (identified by its MemoryData object) in this frame."""
        return self.state[("mem", self.ts.memmap[id(memory_data)], row)]


def unroll(ts, k, init="reset", tag="t", state=None, rst_free=False):
    """k consecutive frames.  Returns (frames, constraints); inputs are free variables
    ``<tag><i>_<port>``; ``rst`` is forced low unless ``rst_free``."""
    if state is not None:
        st = state
    elif init == "reset":
        st = ts.reset_state()
    else:
        st = ts.free_state(tag + "S")
    frames = []
    cons = []
    for i in range(k):
        inp = ts.free_inputs(f"{tag}{i}")
        if "rst" in inp and not rst_free:
            cons.append(inp["rst"] == 0)
        f = ts.frame(st, inp)
        frames.append(f)
        st = f.next_state()
    return frames, cons
