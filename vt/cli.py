"""./run check <ID> [--tier quick|thorough]   ./run replay <path>"""
import argparse
import importlib
import json
import os
import sys

_repo = os.environ.get("VERIF_REPO", "/repo")
sys.path.insert(0, _repo)

import warnings
warnings.simplefilter("ignore")


def main():
    ap = argparse.ArgumentParser()
    sub = ap.add_subparsers(dest="cmd", required=True)
    c = sub.add_parser("check")
    c.add_argument("pid")
    c.add_argument("--tier", default=os.environ.get("VERIF_TIER", "quick"))
    r = sub.add_parser("replay")
    r.add_argument("path")
    a = ap.parse_args()
    import amaranth_soc
    got = os.path.dirname(os.path.dirname(os.path.abspath(amaranth_soc.__file__)))
    if os.path.realpath(got) != os.path.realpath(_repo):
        print(f"harness error: amaranth_soc imported from {got}, expected {_repo}")
        sys.exit(2)
    if a.cmd == "check":
        from . import common
        mod = importlib.import_module(f"vt.props.{a.pid.lower()}")
        seed = int(os.environ.get("VERIF_SEED", "0"))
        tier = a.tier if a.tier in ("quick", "thorough") else "quick"
        sys.exit(common.run_check(mod, tier, seed))
    else:
        with open(a.path) as f:
            v = json.load(f)
        mod = importlib.import_module(v["module"])
        if v.get("query") in ("internal-error", "internal-error-configs"):
            from . import common
            ok = common.replay_internal_error(mod, v)
        else:
            ok = mod.replay(v)
        print(("REPRODUCED " if ok else "NOT REPRODUCED ") + f"property={v['property']} {v['what']}")
        sys.exit(1 if ok else 0)


if __name__ == "__main__":
    try:
        main()
    except SystemExit:
        raise
    except BaseException:          # a crash of the harness itself is never a verdict: exit 2, not 1
        import traceback
        traceback.print_exc()
        print("harness error: the check crashed before reaching a verdict")
        sys.exit(2)
