"""C17 - CSR builder lays registers out deterministically at the promised offsets.

E2: the real Builder.add / Cluster / Index / freeze / as_memory_map (+ MemoryMap.add_resource and
the range map beneath) run with real csr.Register objects of concrete widths and SYMBOLIC offsets.
"""
import itertools
import random

import amaranth_soc.memory as memory
import amaranth_soc.csr.reg as regmod
from amaranth_soc import csr

from ..symex import SymInt, b_and, b_or, b_not, PathAbort
from ..e2 import run_harness, replay_concrete

PROPERTY = "C17"
LEVEL = "model_checking"
META = {
    "engine": "E2 symex",
    "encoded": ["csr.reg.Builder.__init__", "csr.reg.Builder.add", "csr.reg.Builder.Cluster", "csr.reg.Builder.Index",
                "csr.reg.Builder.freeze", "csr.reg.Builder.as_memory_map", "memory.MemoryMap.add_resource",
                "memory.MemoryMap._compute_addr_range", "memory._RangeMap.insert/overlaps"],
    "also": 'address widths 12/16; a second builder used while scopes of the first are open; nested scope programs with registers added after an inner block closed and scope values repeated along a path, scope objects created some time before they are entered; as_memory_map() repeated after a rejection',
    "bounds": "geometry (addr width 1-16 and 60/62, data width 1-48, granularity dividing it, ratios 1-6); sequences of 2-3 (thorough "
              "2-4) additions of real registers with widths in {0,1,dw,dw+1,2dw+1,4dw}, each at an implicit or a "
              "SYMBOLIC explicit offset in [0, 2^aw * dw/g + 2], inside Cluster/Index scopes from a small grammar, "
              "optionally a repeated name, a rejected add() raised out of the scopes before a real one, an add after "
              "freeze; data_width/granularity ratios 1,2,4 and the non-powers-of-two 3,5,6",
    "outside": "more than 4 registers; widths above 4 bus words; acceptance completeness (legal layouts being refused) "
               "is not part of the statement",
    "assumptions": ["isinstance/range/int rebound for amaranth_soc.memory and amaranth_soc.csr.reg",
                    "a zero-width register occupies one address"],
    "rule": "one evaluation = one solver query; distinct_nontrivial = feasible paths passing the preconditions",
}


class Reg(csr.Register, access="rw"):
    def __init__(self, w):
        super().__init__({"f": csr.Field(csr.action.RW, w)})


SCOPES = [[], [["c", "blk"]], [["c", "blk"], ["i", 0]], [["i", 1]], [["c", "x"], ["c", "y"]]]


def configs(tier, seed):
    rnd = random.Random(seed + 1717)
    out = []
    # (addr width, data width, granularity): ratios 1, 2, 4 and the non-powers-of-two 3, 6, 5
    geos = [(4, 8, 8), (4, 16, 8), (5, 32, 8), (3, 8, 8), (4, 32, 16), (6, 16, 16), (4, 24, 8), (5, 48, 8), (4, 12, 4),
            (4, 40, 8), (12, 32, 8), (16, 8, 8), (4, 1, 1), (4, 4, 1), (3, 2, 2), (1, 8, 8), (60, 32, 8), (62, 16, 8)]
    n_cfg = 160 if tier == "quick" else 1800
    while len(out) < n_cfg:
        aw, dw, g = rnd.choice(geos)
        n = rnd.choice([2, 3, 3] if tier == "quick" else [2, 3, 3, 4])
        widths = [0, 1, dw, dw + 1, 2 * dw + 1, 4 * dw]
        adds = []
        for i in range(n):
            adds.append({"w": rnd.choice(widths), "off": rnd.random() < 0.5, "scope": rnd.randrange(len(SCOPES)),
                         "name": rnd.choice(["a", "b", "c"]) if rnd.random() < 0.3 else f"r{i}",
                         # a rejected call made INSIDE the scopes just before the real one (same register twice,
                         # empty name, misaligned offset): it must raise and leave no trace
                         "bad_first": rnd.choice([None, None, "twice", "name", "offset"])})
        cfg = {"aw": aw, "dw": dw, "g": g, "adds": adds, "late": rnd.random() < 0.2}
        if len(out) % 4 == 3:
            # scope PROGRAM: nested Cluster/Index blocks with registers added at every level, also after an inner
            # block has closed; scope values repeat along a path (Index(0)/Cluster("ch")/Index(0))
            for i, a in enumerate(adds):
                a["name"], a["bad_first"] = f"r{i}", None
            cfg["prog"] = _gen_prog(rnd, list(range(n)), 3)
        out.append(cfg)
    # hand-picked programs: a scope value repeated along one path, registers added after the inner block closed
    A = lambda i: {"add": i}
    S = lambda kv, *body: {"scope": list(kv), "body": list(body)}
    NAMES = {3: ["ctrl", "ctrl", "r2"], 6: ["chan", "r1", "r2"], 7: ["r0", "chan", "r2"]}
    progs = ([S(("i", 0), S(("c", "ch"), S(("i", 0), A(0)), A(1)), A(2))],
             [S(("c", "a"), S(("c", "b"), S(("c", "a"), A(0)), A(1))), A(2)],
             [S(("i", 1), S(("i", 1), A(0)), A(1), S(("i", 1), S(("i", 0), A(2))))],
             [S(("i", 0), A(0)), S(("c", "0"), A(1)), A(2)],                      # (0, 'ctrl') next to ('0', 'ctrl'): legal
             [dict(S(("c", "blk"), A(1)), before=[A(0)]), A(2)],
             [S(("c", "x"), dict(S(("i", 1), A(1)), before=[A(0)])), A(2)],
             [A(0), S(("c", "chan"), S(("i", 0), A(1))), A(2)],                   # 'chan' next to chan/0/r1: a collision
             [S(("c", "chan"), S(("i", 0), S(("c", "q"), A(0)))), A(1), A(2)])    # ... three levels apart, other order
    for pi, prog in enumerate(progs):
        for aw, dw, g in ((4, 8, 8), (5, 32, 8)):
            out.append({"aw": aw, "dw": dw, "g": g, "late": False, "prog": prog,
                        "adds": [{"w": w, "off": False, "scope": 0, "name": NAMES.get(pi, [f"r{i}" for i in range(3)])[i],
                                  "bad_first": None} for i, w in enumerate((dw, 1, 2 * dw + 1))]})
    return out


def _gen_prog(rnd, idx, depth):
    """distribute the add indices (in order) over a random nesting of scopes"""
    items = []
    while idx:
        if depth and rnd.random() < 0.6:
            k = rnd.randint(1, len(idx))
            body, idx = idx[:k], idx[k:]
            items.append({"scope": rnd.choice([["i", 0], ["i", 0], ["i", 1], ["c", "ch"], ["c", "ch"], ["c", "x"]]),
                          "body": _gen_prog(rnd, body, depth - 1)})
        else:
            items.append({"add": idx.pop(0)})
    return items


def _pow2_ceil(c):
    return 1 if c <= 1 else 1 << (c - 1).bit_length()


def harness_for(cfg):
    aw, dw, g = cfg["aw"], cfg["dw"], cfg["g"]
    ratio = dw // g
    top = 1 << aw

    def h(E):
        try:
            b = csr.Builder(addr_width=aw, data_width=dw, granularity=g)
        except (ValueError, TypeError):
            E.prove(False, "a legal builder geometry (positive widths, granularity dividing the data width) is refused")
            return
        other = csr.Builder(addr_width=aw, data_width=dw, granularity=g)     # an unrelated builder used in between
        regs, offs, names = [], [], []
        stack = []

        def run(items):
            for it in items:
                if "add" not in it:
                    kind, val = it["scope"]
                    # the scope object may be created some time before it is entered ("before": what happens in between,
                    # outside the scope)
                    cm = b.Cluster(val) if kind == "c" else b.Index(val)
                    run(it.get("before", []))
                    with cm:
                        stack.append(val)
                        run(it["body"])
                        stack.pop()
                    continue
                i = it["add"]
                a = cfg["adds"][i]
                r = Reg(a["w"])
                o = E.int(f"o{i}", 0, top * ratio + 2) if a["off"] else None
                try:
                    b.add(a["name"], r, offset=o)
                except (ValueError, TypeError):
                    E.observe("add-refused")
                    E.prove(o is not None and (o % ratio != 0), "add() refused an offset that is a multiple of data_width/granularity")
                    continue
                if o is not None:
                    E.prove(o % ratio == 0, "add() accepted an offset that is not a multiple of data_width/granularity")
                regs.append(r)
                offs.append(o)
                names.append(tuple(stack) + (a["name"],))
        if cfg.get("prog"):
            run(cfg["prog"])
        for i, a in enumerate(cfg["adds"] if not cfg.get("prog") else []):
            r = Reg(a["w"])
            o = E.int(f"o{i}", 0, top * ratio + 2) if a["off"] else None
            scope = SCOPES[a["scope"]]

            import contextlib
            if a.get("bad_first") and (regs or a["bad_first"] != "twice"):
                # the rejected call raises out of the with-blocks and is handled outside them
                try:
                    with contextlib.ExitStack() as st:
                        for kind, val in scope:
                            st.enter_context(b.Cluster(val) if kind == "c" else b.Index(val))
                        if a["bad_first"] == "twice":
                            b.add("again", regs[0])
                        elif a["bad_first"] == "name":
                            b.add("", Reg(8))
                        else:
                            b.add("misaligned", Reg(8), offset=ratio + 1 if ratio > 1 else -1)
                    E.prove(False, "an invalid add() was accepted")
                except (ValueError, TypeError):
                    pass
            refused = False
            try:
                with contextlib.ExitStack() as st:
                    for kind, val in scope:
                        st.enter_context(b.Cluster(val) if kind == "c" else b.Index(val))
                    if i == 0:
                        other.add("solo", Reg(8))          # scopes of `b` must not leak into `other`
                    b.add(a["name"], r, offset=o)
            except (ValueError, TypeError):
                refused = True
            if refused:
                E.observe("add-refused")
                E.prove(o is not None and (o % ratio != 0), "add() refused an offset that is a multiple of data_width/granularity")
                continue        # a refused register leaves no trace; the builder stays usable
            if o is not None:
                E.prove(o % ratio == 0, "add() accepted an offset that is not a multiple of data_width/granularity")
            regs.append(r)
            offs.append(o)
            names.append(tuple(v for _, v in scope) + (a["name"],))
        if cfg["adds"] and not cfg.get("prog"):
            om = other.as_memory_map()
            E.prove([tuple(n_) for _, n_, _ in om.resources()] == [("solo",)],
                    "a register added to another builder picked up this builder's scope")
        try:
            mm = b.as_memory_map()
        except ValueError:
            E.observe("build-refused")
            # a refusal needs a reason: some register out of bounds, two overlapping, or two colliding names - under
            # the documented placement (explicit: offset * granularity / data_width; implicit: first size-aligned
            # address at or after the previously added register)
            conds, placed_m, cursor = [], [], 0
            for r, o, nm in zip(regs, offs, names):
                size = _pow2_ceil((r.element.width + dw - 1) // dw)
                s_ = (o // ratio) if o is not None else (cursor + size - 1) // size * size
                e_ = s_ + size
                conds.append(e_ <= top)
                for ps, pe in placed_m:
                    conds.append(b_or(e_ <= ps, pe <= s_))
                placed_m.append((s_, e_))
                cursor = e_
            for x, y in itertools.combinations(names, 2):
                k = min(len(x), len(y))
                conds.append(x[:k] != y[:k])
            E.prove(b_not(b_and(*conds)) if conds else False, "a legal layout was refused by as_memory_map()")
            # asking again must refuse again, not hand out a half-built map
            try:
                b.as_memory_map()
                E.prove(False, "a layout that was rejected is silently accepted on the second as_memory_map() call")
            except ValueError:
                pass
            return
        E.observe("built")
        # a frozen builder accepts no further registers
        try:
            b.add("late", Reg(8))
            E.prove(False, "a frozen builder accepted a register")
        except ValueError:
            pass
        # ... and the memory map it returned is final as well
        try:
            mm.add_resource(Reg(8), name=("sneaked-in",), size=1)
            E.prove(False, "the memory map returned by as_memory_map() still accepts resources")
        except ValueError:
            pass
        got = {id(r): (n, s, e) for r, n, (s, e) in mm.resources()}
        E.prove(len(got) == len(regs), "every added register is in the memory map exactly once")
        prev_end = 0
        placed = []
        widths_of = {id(r): r.element.width for r in regs}
        for r, o, nm in zip(regs, offs, names):
            a = {"w": widths_of[id(r)]}
            E.prove(id(r) in got, "added register missing from the memory map")
            n, s, e = got[id(r)]
            size = _pow2_ceil((a["w"] + dw - 1) // dw)
            E.prove(e - s == size, "register occupies ceil(width/data_width) addresses rounded up to a power of two")
            if o is not None:
                E.prove(s * ratio == o, "explicit offset honoured exactly (address = offset * granularity / data_width)")
            else:
                E.prove(b_and(s >= prev_end, s % size == 0, s - prev_end < size),
                        "implicit register at the first size-aligned address at or after the previous register")
            E.prove(tuple(n) == nm, "register named by its full scope path")
            E.prove(b_and(0 <= s, e <= top), "register inside the address space")
            for ps, pe in placed:
                E.prove(b_or(e <= ps, pe <= s), "overlapping layout was accepted")
            placed.append((s, e))
            prev_end = e
            E.observe(s, e)
        for x, y in itertools.combinations(names, 2):
            k = min(len(x), len(y))
            E.prove(x[:k] != y[:k], "colliding names were accepted")
    return h


def check(cfg, out, stats):
    out.extra = {}
    run_harness(PROPERTY, cfg, harness_for(cfg), [memory, regmod], out, stats, label="builder", max_paths=200_000)


def replay(v):
    return replay_concrete(harness_for(v["cfg"]), v)
