"""C14 - CSR event monitor: enable reads back, pending is read / write-one-to-clear.

E1: csr.EventMonitor with everything beneath (event.Monitor, csr.Multiplexer, mask registers) is
translated, attached three ways: as is, through csr.Decoder.add(mon.bus), and by
wiring.connect(m, initiator, mon.bus) in a wrapper (a failing connect is itself the violation).
Black box: addresses from the memory map (paths 'enable' / 'pending'), the sources' i/trg, src.i.
Every window starts in a FREE state, so every earlier history is covered.
"""
import random

import z3
from amaranth import Module
from amaranth.lib import wiring

from amaranth_soc import csr, event

from ..bmc import Harness, Ports, flat_ports, is1, bv, zext, Inconclusive
from ..e1 import Q, run_queries, replay as _replay, cfg_key

PROPERTY = "C14"
LEVEL = "model_checking"
META = {
    "engine": "E1 nir2smt; transaction windows from a free state + reset-rooted window",
    "encoded": ["csr.event.EventMonitor.__init__", "csr.event.EventMonitor.elaborate", "event.Monitor.elaborate",
                "csr.bus.Multiplexer.elaborate", "csr.reg.Register.elaborate", "csr.bus.Decoder.add/elaborate",
                "amaranth.lib.wiring.connect (attachment)"],
    "also": 'two pending writes back to back; 1-3 bit wide buses also behind a decoder; monitor as the third window of a decoder next to two other register banks; read data zero unless the monitor was read in the previous cycle (what sharing a decoder with other subordinates needs); 1-3 bit wide buses with 3-7 events (many-chunk, padded, non-power-of-two registers) incl. a reset-rooted write-enable / read-enable / read-pending window; second pending read issued in the clear cycle; register capacity obligation',
    "bounds": "0,1,3,8,9,17 events at data width 8, 0,5,16,17 at 16 (thorough adds 2,7,16,24 / 31,32,33); alignment "
              "0-2; seeded trigger-mode mixes; three attachments; windows: enable write + read-back, enable write + "
              "pending read + line, pending read / write-one-to-clear / read with source inputs free in every cycle "
              "(fold of trg | (P & ~clr) over the window), reset values; register transactions back to back",
    "outside": "masks wider than 2*data_width+1 bits; behaviour under rst; gaps inside transactions (C04/C05)",
    "assumptions": ["one idle cycle at the start of each free-state window lets the one-cycle residue of the previous bus "
                    "cycle (a registered write strobe about to fire) drain"],
}

TRG = ["level", "rise", "fall"]


def configs(tier, seed):
    rnd = random.Random(seed + 1414)
    out = []
    sizes = {8: [0, 1, 3, 8, 9, 17], 16: [0, 5, 16, 17]} if tier == "quick" else \
        {8: [0, 1, 2, 3, 7, 8, 9, 16, 17, 24], 16: [0, 5, 16, 17, 31, 32, 33]}
    for dw, ns in sizes.items():
        for n in ns:
            for al in (0, 1, 2):
                for att in ("direct", "decoder", "connect"):
                    if tier == "quick" and att != "direct" and al == 2:
                        continue
                    out.append({"n": n, "dw": dw, "al": al, "attach": att,
                                "trg": [TRG[rnd.randrange(3)] for _ in range(n)], "montrg": TRG[rnd.randrange(3)]})
                    if len(out) % 5 == 3 and n > 1:
                        out[-1]["names"] = "same" if len(out) % 10 == 3 else "none"
    # many events (sizes straddling 32 and 64: reductions built from 32- or 64-bit groups have a partial last group)
    # (more than a few words of events make the multi-word sequences too long for the budget: the line reduction of
    #  70-130 sources is decided on the plain monitor, C13)
    for n, dw in (() if tier == "quick" else ((45, 16),)):
        out.append({"n": n, "dw": dw, "al": 0, "attach": "direct",
                    "trg": [TRG[rnd.randrange(3)] for _ in range(n)], "montrg": "level"})
    # narrow buses: many-chunk (also non-power-of-two, padded) registers with few events
    for n, dw in ((5, 1), (3, 1), (7, 2), (5, 2), (7, 3), (4, 3)):
        for al in (0, 1, 2):
            out.append({"n": n, "dw": dw, "al": al, "attach": "direct" if (n + al) % 3 else "decoder",
                        "trg": [TRG[rnd.randrange(3)] for _ in range(n)], "montrg": "level"})
    return out


def maker(cfg):
    def make():
        # source paths: distinct (default), all equal, or none at all (every input signal is then called "i")
        path_of = {"same": lambda i: ("irq", "line"), "none": lambda i: ()}.get(cfg.get("names"), lambda i: (f"s{i}",))
        srcs = [event.Source(trigger=(event.Source.Trigger(t) if i % 2 else t), path=path_of(i)) for i, t in enumerate(cfg["trg"])]
        em = event.EventMap()
        for s in srcs:
            em.add(s)
        mon = csr.EventMonitor(em, trigger=cfg["montrg"], data_width=cfg["dw"], alignment=cfg["al"])
        sp = flat_ports(*srcs, env="out") if srcs else Ports()
        if cfg["attach"] == "direct":
            top, bus, mm = mon, mon.bus, mon.bus.memory_map
            ports = flat_ports(mon) + sp
        elif cfg["attach"] == "decoder":
            # (every other decoder attachment uses a decoder exactly as wide as the monitor: a single window that fills
            #  the decoder's whole address space)
            sibs = 2 if (cfg["n"] + cfg["al"]) % 4 == 1 else 0
            dec = csr.Decoder(addr_width=mon.bus.addr_width + (2 if sibs else (1 if (cfg["n"] + cfg["al"]) % 2 else 0)),
                              data_width=cfg["dw"])
            m = Module()
            for j in range(sibs):
                # two other (write-only) register banks share the decoder; the monitor is its third, last window
                from .mux import StubReg
                from amaranth_soc.memory import MemoryMap
                smm = MemoryMap(addr_width=1, data_width=cfg["dw"])
                sreg = StubReg(cfg["dw"], "w")
                smm.add_resource(sreg, name=(f"cmd{j}",), size=1)
                smux = csr.Multiplexer(smm)
                dec.add(smux.bus, name=(f"bank{j}",))
                m.submodules[f"bank{j}"] = smux
            dec.add(mon.bus, name=("mon",))
            m.submodules.dec = dec
            m.submodules.mon = mon
            top, bus, mm = m, dec.bus, dec.bus.memory_map
            ports = flat_ports(dec) + sp
            src = Ports([wiring_sig for _, _, wiring_sig in mon.src.signature.flatten(mon.src)])
            from ..nir2smt import raw
            ports = ports + Ports([raw(s) for s in src])
            ports.env.add(id(raw(mon.src.trg)))
        else:
            ini = csr.Signature(addr_width=mon.bus.addr_width, data_width=cfg["dw"]).create(path=("ini",))
            m = Module()
            m.submodules.mon = mon
            wiring.connect(m, ini, mon.bus)          # D1: used to raise ConnectionError
            top, bus, mm = m, ini, mon.bus.memory_map
            ports = flat_ports(ini, env="out") + sp
            from ..nir2smt import raw
            ports = ports + Ports([raw(s) for _, _, s in mon.src.signature.flatten(mon.src)])
            ports.env.add(id(raw(mon.src.trg)))
        regs = {}
        for info in mm.all_resources():
            regs[info.path[-1][0]] = (info.start, info.end)
        return Harness(top, ports, mon=mon, bus=bus, srcs=srcs, em=em, regs=regs)
    return make


def queries(h, cfg):
    n, dw = cfg["n"], cfg["dw"]
    AW = h.bus.addr_width

    def idle(h, f):
        return [f.sig(h.bus.r_stb) == 0, f.sig(h.bus.w_stb) == 0]

    def wr(h, f, addr):
        return [f.sig(h.bus.addr) == bv(AW, addr), f.sig(h.bus.w_stb) == 1, f.sig(h.bus.r_stb) == 0]

    def rd(h, f, addr):
        return [f.sig(h.bus.addr) == bv(AW, addr), f.sig(h.bus.r_stb) == 1, f.sig(h.bus.w_stb) == 0]

    def chunks(h, name):
        s, e = h.regs[name]
        return e - s

    def mask(val):
        """low n bits of a concatenation (None when there are no events)."""
        return z3.Extract(n - 1, 0, val) if n else None

    def write_reg(h, fr, t, name):
        s, e = h.regs[name]
        a, cs = [], []
        for j in range(e - s):
            a += wr(h, fr[t + j], s + j)
            cs.append(fr[t + j].sig(h.bus.w_data))
        val = cs[0] if len(cs) == 1 else z3.Concat(*reversed(cs))
        return a, val, t + (e - s)

    def read_reg(h, fr, t, name):
        s, e = h.regs[name]
        a, cs = [], []
        for j in range(e - s):
            a += rd(h, fr[t + j], s + j)
            cs.append(fr[t + j + 1].sig(h.bus.r_data))
        val = cs[0] if len(cs) == 1 else z3.Concat(*reversed(cs))
        return a, val, t + (e - s)

    def high_zero(val):
        return val.size() > n and n >= 0 and (z3.Extract(val.size() - 1, n, val) != 0 if val.size() > n else z3.BoolVal(False))

    ce, cp = chunks(h, "enable"), chunks(h, "pending")

    # (a) enable write / read-back -------------------------------------------------------------------
    def enable_rw(h, fr):
        a = idle(h, fr[0])
        a1, E, t = write_reg(h, fr, 1, "enable")
        a += a1 + idle(h, fr[t])
        a2, R, t2 = read_reg(h, fr, t + 1, "enable")
        a += a2
        bad = [high_zero(R)] if R.size() > n else []
        if n:
            bad.append(mask(R) != mask(E))
        return a, z3.Or(*bad) if bad else z3.BoolVal(False)
    k_a = 1 + ce + 1 + ce + 1

    # (b) line follows enable-and-pending; pending read is an atomic snapshot ---------------------------
    def line(h, fr):
        a = idle(h, fr[0])
        a1, E, t = write_reg(h, fr, 1, "enable")
        a += a1 + idle(h, fr[t])
        tr = t + 1
        a2, P, t2 = read_reg(h, fr, tr, "pending")
        a += a2
        irq = is1(fr[tr].sig(h.mon.src.i))
        if n == 0:
            return a, z3.Or(irq, P != 0)
        exp = (mask(E) & mask(P)) != 0
        bad = [irq != exp]
        if P.size() > n:
            bad.append(z3.Extract(P.size() - 1, n, P) != 0)
        return a, z3.Or(*bad)
    k_b = 1 + ce + 1 + cp + 1

    # (c) pending: read, write-one-to-clear, read -----------------------------------------------------------
    def w1c(h, fr, gap=1, writes=1):
        a = idle(h, fr[0])
        ta = 1
        a1, Pa, t = read_reg(h, fr, ta, "pending")
        a += a1
        clears = {}
        for _ in range(writes):        # (two writes: back to back, e.g. a pipelined initiator acknowledging A then B)
            a2, Wv, t = write_reg(h, fr, t, "pending")
            a += a2
            clears[t] = Wv             # the write to the last address is in frame t-1; the register strobes at t
        T = t - 1                      # frame of the write to the last address; the register strobes at T+1
        if gap:
            a += idle(h, fr[t])
        tb = t + gap                   # gap = 0: the second read is issued in the very cycle the clear is applied
        a3, Pb, t3 = read_reg(h, fr, tb, "pending")
        a += a3
        if n == 0:
            return a, z3.Or(Pa != 0, Pb != 0)
        bad = []
        for src in h.srcs:
            k = h.em.index(src)
            p = z3.Extract(k, k, Pa) == 1
            mode = cfg["trg"][h.srcs.index(src)]
            for t_ in range(ta, tb):
                # the trigger is derived from the source's INPUT LINE by its mode (end to end), not read from
                # the monitor's own trg output
                i0, i1 = is1(fr[t_ - 1].sig(src.i)), is1(fr[t_].sig(src.i))
                trg = {"level": i1, "rise": z3.And(z3.Not(i0), i1), "fall": z3.And(i0, z3.Not(i1))}[mode]
                clr = z3.Extract(k, k, clears[t_]) == 1 if t_ in clears else z3.BoolVal(False)
                p = z3.Or(trg, z3.And(p, z3.Not(clr)))
            bad.append((z3.Extract(k, k, Pb) == 1) != p)
        return a, z3.Or(*bad)
    k_c = 1 + cp + cp + 1 + cp + 1

    def w1c_twin(h, fr):
        a, _ = w1c(h, fr)
        if n == 0:
            return a, z3.BoolVal(True)
        # an event is pending at the first read and gone at the second
        s, e = h.regs["pending"]
        return a, z3.And(fr[2].sig(h.bus.r_data) != 0, fr[-1].sig(h.bus.r_data) == 0)

    # (d) reset values -------------------------------------------------------------------------------------------
    def reset_vals(h, fr):
        a1, P, t = read_reg(h, fr, 0, "pending")
        a2, E, t2 = read_reg(h, fr, t, "enable")
        return a1 + a2, z3.Or(P != 0, E != 0)
    k_d = cp + ce + 1
    def w1c_nogap(h, fr):
        return w1c(h, fr, gap=0)

    def w1c_twice(h, fr):
        return w1c(h, fr, gap=1, writes=2)
    # (e) from reset: write enable, read it back, read pending over its whole reported range -------------------
    def from_reset(h, fr):
        a1, E, t = write_reg(h, fr, 0, "enable")
        a2, R, t = read_reg(h, fr, t + 1, "enable")
        tp = t
        a3, P, t = read_reg(h, fr, tp, "pending")
        a = a1 + idle(h, fr[ce]) + a2 + a3
        bad = []
        if n:
            bad.append(mask(R) != mask(E))
            for src in h.srcs:
                k = h.em.index(src)
                mode = cfg["trg"][h.srcs.index(src)]
                p_ = z3.BoolVal(False)
                for t_ in range(0, tp):
                    i1 = is1(fr[t_].sig(src.i))
                    i0 = is1(fr[t_ - 1].sig(src.i)) if t_ else z3.BoolVal(False)      # edge detectors initially low
                    p_ = z3.Or(p_, {"level": i1, "rise": z3.And(z3.Not(i0), i1), "fall": z3.And(i0, z3.Not(i1))}[mode])
                bad.append((z3.Extract(k, k, P) == 1) != p_)
        if P.size() > n:
            bad.append(z3.Extract(P.size() - 1, n, P) != 0)
        if R.size() > n:
            bad.append(z3.Extract(R.size() - 1, n, R) != 0)
        return a, z3.Or(*bad) if bad else z3.BoolVal(False)
    k_e = ce + 1 + ce + cp + 1
    # rooting a free-state counterexample at reset may need an enable write and a trigger first
    PFX = ce + 3
    qs = [Q("pending-read-in-the-clear-cycle", k_c - 1, w1c_nogap, max_prefix=PFX),
          Q("enable-write-reads-back", k_a, enable_rw, max_prefix=PFX),
          Q("line-is-enable-and-pending-snapshot", k_b, line, max_prefix=PFX,
            twin=(lambda h, fr: (line(h, fr)[0], is1(fr[1 + ce + 1].sig(h.mon.src.i)))) if n else None),
          Q("pending-write-one-to-clear", k_c, w1c, twin=w1c_twin, max_prefix=PFX),
          Q("two-pending-writes-back-to-back", k_c + cp, w1c_twice, max_prefix=PFX),
          Q("reset-values", k_d, reset_vals, init="reset"),
          # what lets the monitor share a decoder with other subordinates (the decoder ORs their read data): nothing
          # on r_data unless the monitor itself was read in the previous cycle
          Q("read-data-zero-unless-just-read", 2, lambda h, fr: ([fr[0].sig(h.bus.r_stb) == 0], fr[1].sig(h.bus.r_data) != 0),
            max_prefix=4)]
    if n <= 9:
        # (reset-rooted windows over many wide masks are out of the solver's reach: > 150 s for 17 events / 3 chunks;
        #  long multi-chunk registers are obtained cheaply with 1-3 bit wide buses instead)
        qs.insert(0, Q("from-reset-write-enable-read-enable-read-pending", k_e, from_reset, init="reset"))
    return qs


def check(cfg, out, stats):
    import sys
    try:
        maker(cfg)()
    except wiring.ConnectionError as e:
        out.violations.append({
            "key": "connect-initiator",
            "what": f"C14 wiring.connect(m, csr.Signature(...).create(), csr.EventMonitor(...).bus) raised "
                    f"ConnectionError: {str(e)[:120]}",
            "query": "connect", "cfg": cfg, "stimulus": [], "prefix": 0, "k": 0, "detail": {}})
        return
    h = maker(cfg)()
    for name in ("enable", "pending"):
        s_, e_ = h.regs.get(name, (0, 0))
        if (e_ - s_) * cfg["dw"] < cfg["n"]:
            from ..bmc import mark_violation
            mark_violation("register-too-small")
            out.violations.append({
                "key": f"register-too-small@{cfg['n']}:{cfg['dw']}:{cfg['al']}",
                "what": f"C14 the memory map gives register '{name}' {e_ - s_} addresses of {cfg['dw']} bits for "
                        f"{cfg['n']} events: the mask cannot be written / read back at the reported addresses",
                "query": "capacity", "cfg": cfg, "stimulus": [], "prefix": 0, "k": 0, "detail": {}})
            return
    run_queries(sys.modules[__name__], cfg, out, stats, cosim_cycles=16)


def replay(v):
    import sys
    if v["query"] == "capacity":
        h = maker(v["cfg"])()
        return any((e_ - s_) * v["cfg"]["dw"] < v["cfg"]["n"] for s_, e_ in h.regs.values())
    if v["query"] == "connect":
        try:
            maker(v["cfg"])()
            return False
        except wiring.ConnectionError:
            return True
    return _replay(sys.modules[__name__], v)
