"""C02 - memory-map allocation never overlaps, overflows, misaligns or half-applies.

E2: the real MemoryMap.add_resource / add_window / align_to / freeze / _compute_addr_range /
_align_up / resources / windows and _RangeMap.insert/overlaps/get (through the real bisect) run on
symbolic addresses and sizes; call kinds per position are enumerated, every path of every call
sequence is explored and every post-condition proved on every path.
"""
import itertools
import random

from amaranth.lib import wiring

import amaranth_soc.memory as memory
from amaranth_soc.memory import MemoryMap

from ..symex import SymInt, SymBool, b_and, b_or, b_not, b_implies, PathAbort
from ..e2 import run_harness, replay_concrete

PROPERTY = "C02"
LEVEL = "model_checking"
META = {
    "engine": "E2 symex (z3 Int proxies, exhaustive DFS path enumeration, per-path concrete replay)",
    "encoded": ["memory.MemoryMap.add_resource", "memory.MemoryMap.add_window", "memory.MemoryMap.align_to",
                "memory.MemoryMap.freeze", "memory.MemoryMap._compute_addr_range", "memory.MemoryMap._align_up",
                "memory.MemoryMap.resources", "memory.MemoryMap.windows", "memory.MemoryMap.all_resources",
                "memory._RangeMap.insert", "memory._RangeMap.overlaps", "memory._RangeMap.items"],
    "also": 'every call is also replayed on a reference map that never saw the refused calls (equal outcomes proved); names from a pool of two; maps of 12/16/33/64 address bits; true division kept exact + boundary-biased concrete replay',
    "bounds": "map addr_width 3-4 (thorough 2-6), map alignment 0-2; call sequences of length 2 exhaustively over 14 "
              "call kinds + seeded sample of length 3 (thorough: length 3 exhaustively over 9 kinds + sample of "
              "length 4); addresses and sizes symbolic integers in [0, 2^aw+2]; per-call alignment 0-2; windows of "
              "ratio 1 (equal width), sparse, dense ratio 2, 4, 8 and 16",
    "outside": "more than 4 live ranges; the numeric alignment rule of dense windows (excluded by the property); "
               "acceptance completeness (a legal call being refused) is not part of the statement",
    "assumptions": ["module globals isinstance/range/int of amaranth_soc.memory rebound to proxies-aware versions while a "
                    "symbolic path runs; bisect/sorted/dict are the real C implementations",
                    "cursor observed through align_to(0), which is idempotent with respect to later placements"],
    "rule": "one evaluation = one solver query (branch feasibility, obligation or replay model); distinct_nontrivial = "
            "number of distinct feasible paths that passed the harness preconditions (each path is a distinct "
            "conjunction of branch decisions)",
}

ROOT_DW = 32


class _Refused(Exception):
    """a legal call was refused: the obligation is recorded, the program ends here"""


class Res(wiring.Component):
    def __init__(self):
        super().__init__({})


# call kinds: (tag, params)
KINDS = {
    "res":       {"k": "res", "addr": False, "al": None},
    "res@":      {"k": "res", "addr": True, "al": None},
    "res/1":     {"k": "res", "addr": False, "al": 1},
    "res@/2":    {"k": "res", "addr": True, "al": 2},
    "win":       {"k": "win", "addr": False, "waw": 1, "wdw": 32, "sparse": None, "wal": 0},
    "win@":      {"k": "win", "addr": True, "waw": 2, "wdw": 32, "sparse": None, "wal": 0},
    "win-anon":  {"k": "win", "addr": False, "waw": 1, "wdw": 32, "sparse": None, "wal": 0, "anon": True},
    # a (necessarily empty) window whose OWN alignment exceeds its size and the parent's alignment: irrelevant to where
    # the parent puts it
    "win/wal3":  {"k": "win", "addr": False, "waw": 1, "wdw": 32, "sparse": None, "wal": 3},
    "sparse":    {"k": "win", "addr": False, "waw": 2, "wdw": 8, "sparse": True, "wal": 0},
    "dense2@":   {"k": "win", "addr": True, "waw": 2, "wdw": 16, "sparse": False, "wal": 1},
    "dense4":    {"k": "win", "addr": False, "waw": 3, "wdw": 8, "sparse": False, "wal": 2},
    "dense8":    {"k": "win", "addr": False, "waw": 4, "wdw": 4, "sparse": False, "wal": 3},
    "dense16@":  {"k": "win", "addr": True, "waw": 6, "wdw": 2, "sparse": False, "wal": 4},
    "align1":    {"k": "align", "to": 1},
    "align3":    {"k": "align", "to": 3},
    "freeze":    {"k": "freeze"},
    "bad-size":  {"k": "bad", "what": "size"},
    "bad-twice": {"k": "bad", "what": "twice"},
}
CORE = ["res", "res@", "res/1", "win", "win@", "dense2@", "align1", "freeze", "bad-size"]


def configs(tier, seed):
    rnd = random.Random(seed + 202)
    out = []
    names = list(KINDS)
    if tier == "quick":
        geos = [(3, 0), (4, 1), (4, 2)]
        seqs = [list(s) for s in itertools.product(names, repeat=2)]
        for s in seqs:
            aw, al = geos[len(out) % len(geos)]
            out.append({"aw": aw, "al": al, "seq": s})
        for _ in range(120):
            aw, al = rnd.choice(geos)
            out.append({"aw": aw, "al": al, "seq": [rnd.choice(CORE) for _ in range(3)]})
        # out-of-order explicit placements followed by a third item (the most recently inserted range is not the
        # highest one; the cursor has been rewound)
        for s3 in (["res@", "res@", "res"], ["res@", "res@", "res@"], ["res@", "res@", "win"], ["win@", "res@", "res"],
                   ["res@", "win@", "res/1"], ["res@", "res@", "dense4"], ["win@", "win@", "res"]):
            for aw, al in ((4, 0), (5, 1)):
                out.append({"aw": aw, "al": al, "seq": s3})
        for aw, al in ((12, 0), (16, 3), (33, 1), (64, 0)):       # the arithmetic is width-agnostic; wide maps cost nothing
            for _ in range(6):
                out.append({"aw": aw, "al": al, "seq": [rnd.choice(names) for _ in range(2)]})
    else:
        geos = [(2, 0), (3, 0), (3, 1), (4, 0), (4, 1), (4, 2), (5, 0), (6, 1)]
        for s in itertools.product(names, repeat=2):
            for aw, al in geos:
                out.append({"aw": aw, "al": al, "seq": list(s)})
        for s in itertools.product(CORE, repeat=3):
            aw, al = geos[len(out) % len(geos)]
            out.append({"aw": aw, "al": al, "seq": list(s)})
        for _ in range(400):
            aw, al = rnd.choice(geos)
            out.append({"aw": aw, "al": al, "seq": [rnd.choice(CORE) for _ in range(4)]})
    return out


def align_up(v, a):
    m = 1 << a
    return (v + m - 1) // m * m


def harness_for(cfg):
    aw, al, seq = cfg["aw"], cfg["al"], cfg["seq"]
    top = 1 << aw

    def h(E):
        try:
            body(E)
        except _Refused:
            pass

    def body(E):
        mm = MemoryMap(addr_width=aw, data_width=ROOT_DW, alignment=al)
        log = []            # the calls that SUCCEEDED, as replayable closures f(map) -> result

        def reference():
            """a fresh map that has seen only the successful calls (never a refused one)"""
            ref = MemoryMap(addr_width=aw, data_width=ROOT_DW, alignment=al)
            for f in log:
                f(ref)
            return ref

        def outcome(f, m):
            try:
                return ("ok",) + tuple(f(m))
            except (ValueError, TypeError):
                return ("raise",)
            except Exception:
                return ("internal-error",)

        def same_outcome(a, b):
            if a[0] != b[0] or len(a) != len(b):
                return False
            return b_and(*[x == y for x, y in zip(a[1:], b[1:])])
        items = []          # accepted: (kind, obj, start, end)
        cur = 0             # model of the placement cursor
        frozen = False
        pool = [Res() for _ in range(len(seq) + 1)]

        def snapshot():
            return ([(id(r), s, e) for r, _, (s, e) in mm.resources()],
                    [(id(w), s, e, r) for w, _, (s, e, r) in mm.windows()],
                    [(id(i.resource), i.start, i.end) for i in mm.all_resources()])

        def same(a, b, what):
            for x, y in zip(a, b):
                if len(x) != len(y):
                    E.prove(False, f"failed call changed the number of {what}")
                    return
                for p, q in zip(x, y):
                    E.prove(len(p) == len(q) and b_and(*[u == v for u, v in zip(p, q)]),
                            f"failed call changed {what}")

        def check_reports():
            res = [(id(r), s, e) for r, _, (s, e) in mm.resources()]
            win = [(id(w), s, e) for w, _, (s, e, r) in mm.windows()]
            exp_r = [(id(o), s, e) for k, o, s, e in items if k == "res"]
            exp_w = [(id(o), s, e) for k, o, s, e in items if k == "win"]
            E.prove(len(res) == len(exp_r) and len(win) == len(exp_w), "resources()/windows() report every accepted item once")
            for rep, exp in ((res, exp_r), (win, exp_w)):
                for i in range(len(rep) - 1):
                    E.prove(rep[i][2] <= rep[i + 1][1], "reported in ascending, non-overlapping order")
                for ident, s, e in exp:
                    hit = [x for x in rep if x[0] == ident]
                    E.prove(len(hit) == 1 and b_and(hit[0][1] == s, hit[0][2] == e), "reported range equals the range handed out")

        def align(m, k):
            """align_to with a legal (non-negative) alignment is never refused"""
            try:
                return m.align_to(k)
            except (ValueError, TypeError):
                E.observe("align-refused", k)
                E.prove(False, "align_to() refuses a legal alignment")
                raise _Refused()

        for n, tag in enumerate(seq):
            kd = KINDS[tag]
            before = snapshot()
            cur_before = align_up(cur, al)
            if kd["k"] == "align":
                got = align(mm, kd["to"])
                log.append(lambda m, k=kd["to"]: (m.align_to(k),))
                cur = align_up(cur, max(kd["to"], al))
                E.prove(got == cur, "align_to returns the first suitably aligned address at or after the cursor")
                E.observe("align", got)
                continue
            if kd["k"] == "freeze":
                mm.freeze()
                log.append(lambda m: (m.freeze(),))
                frozen = True
                continue
            # ---- an add ------------------------------------------------------------------------------
            if kd["k"] == "bad":
                try:
                    if kd["what"] == "size":
                        mm.add_resource(pool[n], name=(f"x{n}",), size=-1)
                    else:
                        victim = next((o for k, o, s, e in items if k == "res"), None)
                        if victim is None:
                            mm.add_resource(Res(), name=(f"x{n}",), size=1, alignment=-1)
                        else:
                            mm.add_resource(victim, name=(f"x{n}",), size=1)
                    E.prove(False, "invalid call was accepted")
                except (ValueError, TypeError):
                    E.observe("raise")
                same(before, snapshot(), "query results")
                E.prove(align(mm, 0) == cur_before, "failed call moved the placement cursor")
                continue
            addr = E.int(f"a{n}", 0, top + 2) if kd["addr"] else None
            # the name of a REFUSED call is used again by the next one (a refused call must not keep its name
            # reserved); accepted items get distinct names
            nm = (f"n{len(items)}",)
            if kd["k"] == "res":
                size = E.int(f"z{n}", 0, top + 2)

                def call(m, size=size, addr=addr, kd=kd, nm=nm):
                    return m.add_resource(Res(), name=nm, addr=addr, size=size, alignment=kd["al"])
            else:
                def call(m, addr=addr, kd=kd, nm=nm):
                    return m.add_window(MemoryMap(addr_width=kd["waw"], data_width=kd["wdw"], alignment=kd["wal"]),
                                        name=(None if kd.get("anon") else nm), addr=addr, sparse=kd["sparse"])
            # differential: the same call on a map that never saw the refused calls must have the same outcome
            ref_out = outcome(call, reference())
            obj = None
            try:
                if kd["k"] == "res":
                    obj = pool[n]
                    start, end = mm.add_resource(obj, name=nm, addr=addr, size=size, alignment=kd["al"])
                    eff = max(al, kd["al"] or 0)
                    need = align_up(b_max(size, 1, E), eff)
                    ratio = 1
                else:
                    obj = MemoryMap(addr_width=kd["waw"], data_width=kd["wdw"], alignment=kd["wal"])
                    start, end, ratio = mm.add_window(obj, name=(None if kd.get("anon") else nm), addr=addr, sparse=kd["sparse"])
                    exp_ratio = 1 if kd["sparse"] in (None, True) else ROOT_DW // kd["wdw"]
                    E.prove(ratio == exp_ratio, "window ratio")
                    need = (1 << kd["waw"]) // exp_ratio
                    eff = max(al, kd["waw"]) if exp_ratio == 1 else None
            except (ValueError, TypeError) as refusal:
                if type(refusal) not in (ValueError, TypeError):
                    raise
                E.observe("raise")
                same(before, snapshot(), "query results")
                E.prove(align(mm, 0) == cur_before, "failed call moved the placement cursor")
                E.prove(ref_out[0] == "raise", "a call is refused only because of an earlier REFUSED call (half-applied state)")
                if kd["k"] == "win" and obj is not None:
                    # the map that was OFFERED as a window is untouched as well: still an ordinary, extensible map
                    try:
                        obj.add_resource(Res(), name=("still-mine",), size=1)
                    except ValueError as e_:
                        # (a window map that is too small for one aligned resource refuses it for lack of space: fine)
                        E.prove("frozen" not in str(e_), "a refused add_window() left the offered map frozen")
                continue
            except Exception:
                # anything else (AssertionError, OverflowError, IndexError, ...) is an internal error of the library:
                # a call is either accepted or refused with ValueError / TypeError
                E.observe("internal-error")
                E.prove(False, "an add call fails with an internal error instead of being accepted or refused")
                return
            E.observe("ok", start, end)
            got = ("ok", start, end) + ((ratio,) if kd["k"] == "win" else ())
            E.prove(same_outcome(ref_out, got), "earlier refused calls changed the outcome of a later call")
            log.append(call)
            E.prove(not frozen, "add accepted after freeze()")
            E.prove(b_and(0 <= start, start < end, end <= top), "range inside [0, 2**addr_width)")
            E.prove(end - start >= need, "range covers the requested size rounded to the effective alignment")
            # Alignment of the START is claimed by the statement for implicit placements only ("first
            # suitably aligned address at or after the cursor"); an explicit address is "honoured exactly
            # or rejected" (the code checks it against the map alignment only - see DESIGN.md, readings).
            if addr is None:
                if eff is not None:
                    E.prove(start == align_up(cur, eff), "implicit placement = first aligned address at or after the cursor")
                else:
                    E.prove(b_and(start >= cur, start % (1 << al) == 0), "implicit placement at or after the cursor, map-aligned")
            if addr is not None:
                E.prove(start == addr, "explicit address honoured exactly")
            for k, o, s, e in items:
                E.prove(b_or(end <= s, e <= start), "ranges handed out are pairwise disjoint")
            items.append(("res" if kd["k"] == "res" else "win", obj, start, end))
            cur = end
            check_reports()
            if kd["k"] == "win":
                # the window map is frozen by being used
                try:
                    obj.add_resource(Res(), name=("late",), size=1)
                    E.prove(False, "a map used as a window still accepts resources")
                except ValueError:
                    pass
        E.observe("cursor", align(mm, 0))
        E.prove(align(mm, 0) == align_up(cur, al), "next implicit placement follows the last accepted item")
    return h


def b_max(a, b, E):
    """max() for the oracle side without forking the path: encoded with an If term."""
    import z3
    from ..symex import _mk, _lift
    if isinstance(a, SymInt) or isinstance(b, SymInt):
        ea, eb = _lift(a), _lift(b)
        return _mk(z3.If(ea >= eb, ea, eb))
    return max(a, b)


def _frozen_by_consumers():
    """frozen 'by being handed to a bridge or peripheral': executed concretely."""
    from amaranth_soc import csr
    from amaranth_soc.periph import PeripheralInfo
    bad = []
    mm = MemoryMap(addr_width=4, data_width=8)
    csr.Bridge(mm)
    try:
        mm.add_resource(Res(), name=("x",), size=1)
        bad.append("csr.Bridge does not freeze its memory map")
    except ValueError:
        pass
    mm = MemoryMap(addr_width=4, data_width=8)
    PeripheralInfo(memory_map=mm)
    try:
        mm.add_window(MemoryMap(addr_width=1, data_width=8))
        bad.append("PeripheralInfo does not freeze its memory map")
    except ValueError:
        pass
    return bad


def check(cfg, out, stats):
    out.extra = {}
    run_harness(PROPERTY, cfg, harness_for(cfg), [memory], out, stats, label="/".join(cfg["seq"]))
    if cfg["seq"][0] == "freeze" and cfg["seq"][1] == "freeze":
        for b in _frozen_by_consumers():
            out.violations.append({"key": b, "what": f"C02 {b}", "query": "frozen-by-consumer", "cfg": cfg,
                                   "values": {}, "msg": b, "stimulus": [], "prefix": 0, "k": 0, "detail": {}})


def replay(v):
    if v["query"] == "frozen-by-consumer":
        return v["msg"] in _frozen_by_consumers()
    return replay_concrete(harness_for(v["cfg"]), v)
