"""C11 - register fields are packed LSB-first, contiguously, and strobed by access mode.

E1: Register.__init__/__iter__/elaborate and FieldActionMap/Array.flatten run for real on field
collections drawn from a grammar; the oracle is the harness's own declaration-order walk of the INPUT
dict/list (independent of flatten()).  One free frame (storage of RW fields is free state).
"""
import random

import z3
from amaranth import unsigned, signed
from amaranth.hdl import Shape
from amaranth.lib import enum as am_enum
from amaranth.lib.wiring import In

from amaranth_soc import csr
from amaranth_soc.csr import action

from ..bmc import Harness, Ports, flat_ports, is1, bv, raw
from ..e1 import Q, run_queries, replay as _replay

PROPERTY = "C11"
LEVEL = "model_checking"
META = {
    "engine": "E1 nir2smt, single free frame",
    "encoded": ["csr.reg.Register.__init__", "csr.reg.Register.__iter__", "csr.reg.Register.elaborate",
                "csr.reg.FieldActionMap.__init__/flatten", "csr.reg.FieldActionArray.__init__/flatten",
                "csr.reg.Field.create", "csr.reg.FieldPort.Signature"],
    "also": 'underscore-prefixed annotation names, subclassed annotation-defined registers, sub-collections that are the same object twice, second elaboration of the same register, field paths that coincide under an underscore flattening, containers given as dict / list subclasses, r_data of non-readable fields arbitrary',
    "bounds": "field collections: single Field, dict, list, nested dict/list up to depth 3, annotation-defined "
              "classes; 1-6 leaves (thorough 1-9); actions R/W/RW/RW1C/RW1S/reserved; shapes unsigned 0-9, signed "
              "1-5, enum; register access r/w/rw; every value on element and field ports (one free frame)",
    "outside": "registers wider than ~60 bits; user-defined FieldAction subclasses other than the built-in ones",
    "assumptions": ["field port signals are the interface between register and field (field behaviour is C12)"],
}


class En(am_enum.Enum, shape=unsigned(2)):
    A = 0
    B = 2
    C = 3


ACTIONS = {"R": "r", "W": "w", "RW": "rw", "RW1C": "rw", "RW1S": "rw", "ResRAW0": "nc", "ResR0WA": "nc"}


def _shape(d):
    k, w = d
    return {"u": lambda: unsigned(w), "s": lambda: signed(w), "e": lambda: En}[k]()


def _width(d):
    return 2 if d[0] == "e" else d[1]


def _gen_leaf(rnd, allowed):
    act = rnd.choice(allowed)
    kind = rnd.choice(["u", "u", "u", "s", "e"])
    if act in ("RW1C", "RW1S") and kind == "e":
        kind = "u"
    if kind == "u":
        d = ["u", rnd.choice([0, 1, 1, 2, 3, 5, 8, 9])]
    elif kind == "s":
        d = ["s", rnd.choice([1, 2, 3, 5])]
    else:
        d = ["e", 0]
    return {"leaf": act, "shape": d}


def _dupify(rnd, children):
    """with some probability the i-th child becomes a reference to the same collection object as child i-1"""
    import copy
    for i in range(1, len(children)):
        if "leaf" not in children[i - 1] and rnd.random() < 0.35:
            children[i] = dict(copy.deepcopy({k: v for k, v in children[i - 1].items() if k != "dup"}), dup=True)
    return children


def _gen_tree(rnd, depth, allowed, budget):
    if depth == 0 or budget[0] <= 1 or rnd.random() < 0.35:
        budget[0] -= 1
        return _gen_leaf(rnd, allowed)
    n = rnd.randint(1, 3)
    kids = _dupify(rnd, [_gen_tree(rnd, depth - 1, allowed, budget) for i in range(n)])
    if rnd.random() < 0.5:
        return {"dict": [[rnd.choice(["a", "b", "c", "d", "e", "_r", "_pad", "x_"]) + str(i), k] for i, k in enumerate(kids)]}
    return {"list": kids}


def configs(tier, seed):
    rnd = random.Random(seed + 1111)
    out = []
    want = 200 if tier == "quick" else 3000
    while len(out) < want:
        acc = rnd.choice(["r", "w", "rw", "rw"])
        allowed = [a for a, m in ACTIONS.items() if (("r" not in m) or "r" in acc) and (("w" not in m) or "w" in acc)]
        tree = _gen_tree(rnd, 3, allowed, [6 if tier == "quick" else 9])
        style = rnd.choice(["arg", "arg", "annot", "annot_sub"]) if "dict" in tree else "arg"
        cfg = {"acc": acc, "tree": tree, "style": style, "second": len(out) % 5 == 4,
               # containers given as dict / list SUBCLASSES (OrderedDict, a user-defined list)
               "subcls": len(out) % 4 == 1}
        if style == "annot_sub":
            # the register class re-declares its annotations in a SUBCLASS of another annotation-defined register
            # whose instance was created first (per-class state must not leak through inheritance)
            cfg["base_tree"] = {"dict": [["base0", _gen_leaf(rnd, allowed)], ["base1", _gen_leaf(rnd, allowed)]]}
        out.append(cfg)
    # field paths that meet under a flattening with '_' (legal: distinct under the library's own '__' join)
    L = lambda act, w: {"leaf": act, "shape": ["u", w]}
    for acc, tree in (("rw", {"dict": [["rx", {"dict": [["en", L("RW", 2)], ["mode", L("R", 3)]]}], ["rx_en", L("RW", 4)], ["rx_mode", L("W", 1)]]}),
                      ("rw", {"dict": [["ch", {"list": [L("RW", 2), L("W", 3)]}], ["ch_0", L("R", 4)], ["ch_1", L("RW", 1)]]}),
                      ("r", {"dict": [["a", {"dict": [["b", {"dict": [["c", L("R", 2)]]}]]}], ["a_b", {"dict": [["c", L("R", 3)]]}], ["a_b_c", L("R", 1)]]})):
        out.append({"acc": acc, "tree": tree, "style": "arg", "second": False})
    # lists of more than ten fields of different widths (index 10 sorts before index 2 as a string), as argument and
    # as class annotation, also nested inside a dict next to other members
    long_list = {"list": [L(("RW", "R", "W")[i % 3], 1 + (i * 5) % 7) for i in range(12)]}
    for style in ("arg", "annot"):
        out.append({"acc": "rw", "tree": {"dict": [["ch", long_list], ["tail", L("RW", 3)]]}, "style": style, "second": False})
        out.append({"acc": "rw", "tree": {"dict": [["a", L("R", 2)], ["grp", {"dict": [["lanes", long_list]]}]]}, "style": style,
                    "second": style == "annot"})
    # an unservable field at ANY position of ANY collection shape must be refused (executed, not solved)
    import copy
    k = 0
    for cfg in list(out):
        if cfg["acc"] == "rw" or cfg["style"] == "annot_sub":
            continue
        leaves = _count_leaves(cfg["tree"])
        for pos in sorted({0, leaves - 1, (k * 7) % leaves}):
            bad = rnd.choice(["W", "RW", "RW1C", "RW1S"] if cfg["acc"] == "r" else ["R", "RW", "RW1C", "RW1S"])
            t = copy.deepcopy(cfg["tree"])
            _replace_leaf(t, [pos], bad)
            out.append({"acc": cfg["acc"], "tree": t, "style": cfg["style"], "table": True, "must_reject": True})
        k += 1
    # one user-defined action class used with several access modes in one register: every instance is checked, a
    # servable one before an unservable one excuses nothing
    F = lambda mode, w=2: {"leaf": f"Flex:{mode}", "shape": ["u", w]}
    for acc, members in (("r", [F("r"), F("w")]), ("w", [F("w"), F("r")]), ("r", [F("nc"), F("r"), F("rw")]),
                         ("w", [F("w"), F("nc"), F("rw")])):
        out.append({"acc": acc, "tree": {"dict": [[f"f{i}", m] for i, m in enumerate(members)]}, "style": "arg", "table": True,
                    "must_reject": True})
        out.append({"acc": acc, "tree": {"dict": [["g", {"dict": [[f"f{i}", m] for i, m in enumerate(members[:-1])]}], ["last", members[-1]]]},
                    "style": "arg", "table": True, "must_reject": True})
    for acc, members in (("r", [F("r"), F("nc"), F("r")]), ("rw", [F("r"), F("w"), F("rw")])):
        out.append({"acc": acc, "tree": {"dict": [[f"f{i}", m] for i, m in enumerate(members)]}, "style": "arg", "table": True,
                    "must_accept": True})
    # access-compatibility rejection table (executed, not solved)
    for facc in ("R", "W", "RW", "ResRAW0"):
        for racc in ("r", "w", "rw"):
            out.append({"acc": racc, "tree": {"leaf": facc, "shape": ["u", 3]}, "style": "arg", "table": True})
    return out


def _count_leaves(tree):
    if "leaf" in tree:
        return 1
    kids = [v for _, v in tree["dict"]] if "dict" in tree else tree["list"]
    return sum(_count_leaves(v) for v in kids)


def _replace_leaf(tree, pos, act):
    """replace the pos[0]-th leaf (declaration order; shared sub-collections counted each time) by action `act`"""
    if "leaf" in tree:
        if pos[0] == 0:
            tree["leaf"] = act
            if tree["shape"][0] == "e" and act in ("RW1C", "RW1S"):
                tree["shape"] = ["u", 2]
        pos[0] -= 1
        return
    kids = [v for _, v in tree["dict"]] if "dict" in tree else tree["list"]
    import copy
    for i, v in enumerate(kids):
        before = pos[0]
        _replace_leaf(v, pos, act)
        if before >= 0 > pos[0] and "leaf" not in v:
            # kids marked "dup" are the SAME object as the nearest non-dup kid to their left: keep the whole run
            # [head, dup, dup, ...] that contains kid i identical
            lo = i
            while lo > 0 and kids[lo].get("dup"):
                lo -= 1
            hi = i
            while hi + 1 < len(kids) and kids[hi + 1].get("dup"):
                hi += 1
            if kids[lo].get("dup") or (lo == i and hi == i):
                continue
            body = {k2: v2 for k2, v2 in v.items() if k2 != "dup"}
            for j in range(lo, hi + 1):
                if j != i and (j == lo or kids[j].get("dup")) and "leaf" not in kids[j]:
                    keep = kids[j].get("dup")
                    kids[j].clear()
                    kids[j].update(copy.deepcopy(body))
                    if keep:
                        kids[j]["dup"] = True


class _Flex(csr.FieldAction):
    """a user-defined field action whose access mode is a constructor argument (one class, several modes)"""
    def __init__(self, shape, access):
        super().__init__(shape, access=access)

    def elaborate(self, platform):
        from amaranth.hdl import Module
        return Module()


def _to_fields(tree):
    if "leaf" in tree and tree["leaf"].startswith("Flex:"):
        return csr.Field(_Flex, _shape(tree["shape"]), access=tree["leaf"][5:])
    if "leaf" in tree:
        cls = getattr(action, tree["leaf"])
        return csr.Field(cls, _shape(tree["shape"]))
    # a sub-collection marked "dup" is the SAME Python object as its left neighbour (`ch0: CHANNEL; ch1: CHANNEL`)
    if "dict" in tree:
        out, prev = {}, None
        for k, v in tree["dict"]:
            prev = prev if (v.get("dup") and prev is not None) else _to_fields(v)
            out[k] = prev
        return out
    out, prev = [], None
    for v in tree["list"]:
        prev = prev if (v.get("dup") and prev is not None) else _to_fields(v)
        out.append(prev)
    return out


def _walk(tree, obj):
    """Declaration-order walk of the INPUT structure, paired with the instantiated field objects."""
    if "leaf" in tree:
        yield tree, obj
    elif "dict" in tree:
        for k, v in tree["dict"]:
            yield from _walk(v, obj[k])
    else:
        for i, v in enumerate(tree["list"]):
            yield from _walk(v, obj[i])


class _L(list):
    """a list subclass (user-defined container of fields)"""


def _subclassed(x):
    """the same field collection with every dict an OrderedDict and every list a list subclass"""
    import collections
    if isinstance(x, dict):
        return collections.OrderedDict((k, _subclassed(v)) for k, v in x.items())
    if isinstance(x, list):
        return _L(_subclassed(v) for v in x)
    return x


def _make_reg(cfg):
    fields = _to_fields(cfg["tree"])
    if cfg.get("subcls"):
        fields = _subclassed(fields)
    if cfg["style"] == "annot":
        cls = type("AnnotReg", (csr.Register,), {"__annotations__": dict(fields)}, access=cfg["acc"])
        return cls()
    if cfg["style"] == "annot_sub":
        base = type("BaseReg", (csr.Register,), {"__annotations__": dict(_to_fields(cfg["base_tree"]))}, access=cfg["acc"])
        base()          # the base class is instantiated first
        cls = type("DerivedReg", (base,), {"__annotations__": dict(fields)})
        return cls()
    return csr.Register(fields, access=cfg["acc"])


def maker(cfg):
    def make():
        reg = _make_reg(cfg)
        if cfg.get("second"):
            # the register has already been elaborated once (e.g. simulated); the checked netlist is its second elaboration
            from amaranth.hdl import Fragment
            Fragment.get(reg, None)
        leaves = list(_walk(cfg["tree"], reg.f))
        ports = Ports()
        el = reg.element
        for path, member, s in reg.signature.flatten(reg):
            s = raw(s)
            ports.append(s)
            if path[-1] in ("r_stb", "w_stb", "w_data"):
                ports.env.add(id(s))          # the bus side drives strobes and write data
        seen = {id(s) for s in ports}
        for t, fa in leaves:
            for path, member, s in fa.signature.flatten(fa):
                s = raw(s)
                if id(s) in seen:
                    continue
                seen.add(id(s))
                ports.append(s)
                if path[0] != "port" and member.flow == In:
                    ports.env.add(id(s))      # user-side inputs of the action (R.r_data, RW1C.set, ...)
                if path == ("port", "r_data") and "r" not in ACTIONS[t["leaf"]]:
                    # a write-only / reserved field's r_data is not driven by the built-in actions (a user-defined
                    # action might drive it): arbitrary, and the register must not let it through
                    ports.env.add(id(s))
        return Harness(reg, ports, reg=reg, leaves=leaves)
    return make


def queries(h, cfg):
    def packing(h, fr):
        f = fr[0]
        el = h.reg.element
        bad = []
        lo = 0
        for t, fa in h.leaves:
            w = _width(t["shape"])
            mode = ACTIONS[t["leaf"]]
            hi = lo + w
            p = fa.port
            if el.access.readable():
                if w:
                    got = z3.Extract(hi - 1, lo, f.sig(el.r_data))
                    exp = f.sig(p.r_data) if "r" in mode else bv(w, 0)
                    bad.append(got != exp)
                exp_stb = f.sig(el.r_stb) if "r" in mode else bv(1, 0)
                bad.append(f.sig(p.r_stb) != exp_stb)
            else:
                bad.append(f.sig(p.r_stb) != 0)
            if el.access.writable():
                if w and "w" in mode:
                    bad.append(f.sig(p.w_data) != z3.Extract(hi - 1, lo, f.sig(el.w_data)))
                exp_stb = f.sig(el.w_stb) if "w" in mode else bv(1, 0)
                bad.append(f.sig(p.w_stb) != exp_stb)
            else:
                bad.append(f.sig(p.w_stb) != 0)
            lo = hi
        return [], z3.Or(*bad)

    def twin(h, fr):
        f = fr[0]
        el = h.reg.element
        return [], (is1(f.sig(el.r_stb)) if el.access.readable() else is1(f.sig(el.w_stb)))
    return [Q("packing-and-strobes", 1, packing, twin=twin)]


def _structural(cfg):
    """width = sum of field widths; iteration order = declaration order."""
    reg = _make_reg(cfg)
    leaves = list(_walk(cfg["tree"], reg.f))
    total = sum(_width(t["shape"]) for t, _ in leaves)
    order_ok = [id(fa) for _, fa in leaves] == [id(fa) for _, fa in reg]
    # ... and the field found at a declared position IS the one declared there (its action class and width)
    from amaranth.hdl import Shape
    kind_ok = all(type(fa) is getattr(action, t["leaf"]) and Shape.cast(fa.port.shape).width == _width(t["shape"])
                  for t, fa in leaves)
    return reg.element.width == total and order_ok and kind_ok


def _table(cfg):
    if cfg.get("must_reject"):
        should_reject = True
    elif cfg.get("must_accept"):
        should_reject = False
    else:
        mode = ACTIONS[cfg["tree"]["leaf"]]
        should_reject = ("r" in mode and "r" not in cfg["acc"]) or ("w" in mode and "w" not in cfg["acc"])
    try:
        _make_reg(cfg)
        rejected = False
    except ValueError:
        rejected = True
    except TypeError:
        # On the pinned tree the refusal of a field inside a LIST surfaces as TypeError: the ValueError's message is
        # built with '__'.join(field_path) and list indices are ints.  The register is still refused at construction,
        # which is all the property states; an acceptance is never excused.
        if not should_reject:
            raise
        rejected = True
    return rejected == should_reject


def check(cfg, out, stats):
    import sys
    if cfg.get("table"):
        out.extra = {"rejection_table_entries": 1}
        if not _table(cfg):
            from ..e1 import cfg_key
            leaf = cfg["tree"].get("leaf") or cfg_key(cfg["tree"])
            out.violations.append({"key": f"access-table@{leaf}:{cfg['acc']}",
                                   "what": f"C11 field collection {leaf} in a register with access "
                                           f"{cfg['acc']!r}: acceptance differs from the access-compatibility rule",
                                   "query": "table", "cfg": cfg, "stimulus": [], "prefix": 0, "k": 0, "detail": {}})
        return
    out.extra = {"structural_checks": 1}
    try:
        ok = _structural(cfg)
    except (KeyError, IndexError, AttributeError):
        ok = False          # a declared field does not exist in the instantiated register
    if not ok:
        from ..e1 import cfg_key
        out.violations.append({"key": f"width-or-order@{cfg_key(cfg)}",
                               "what": f"C11 a declared field is missing, the register width is not the sum of field "
                                       f"widths, or iteration order is not declaration order, for {cfg_key(cfg)}",
                               "query": "structural", "cfg": cfg, "stimulus": [], "prefix": 0, "k": 0, "detail": {}})
        return
    run_queries(sys.modules[__name__], cfg, out, stats, cosim_cycles=8)


def replay(v):
    import sys
    if v["query"] == "table":
        return not _table(v["cfg"])
    if v["query"] == "structural":
        try:
            return not _structural(v["cfg"])
        except (KeyError, IndexError, AttributeError):
            return True
    return _replay(sys.modules[__name__], v)
