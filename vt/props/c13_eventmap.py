"""E2 half of C13: the real EventMap.add/index/sources/freeze/size on symbolic call sequences."""
import amaranth_soc.event as event

from ..symex import PathAbort
from ..e2 import run_harness, replay_concrete

PROPERTY = "C13"


def harness_for(cfg):
    n = cfg["calls"]

    def h(E):
        srcs = [event.Source(trigger=t, path=(f"s{i}",)) for i, t in enumerate(("level", "rise", "fall"))]
        em = event.EventMap()
        # the same sources are also members of a SECOND, unrelated map, which is filled in reverse order in between
        # (a source shared by two monitors): the first map's numbering must not notice
        other = event.EventMap()
        fpos = E.int("freeze_at", 0, n)
        order = []            # oracle: first-addition order
        frozen = False
        for i in range(n):
            if fpos == i:
                em.freeze()
                frozen = True
            c = E.int(f"c{i}", 0, 2)
            k = 0 if c == 0 else (1 if c == 1 else 2)
            before = [(id(s), ix) for s, ix in em.sources()]
            try:
                em.add(srcs[k])
                E.prove(not frozen, "add accepted after freeze()")
                if k not in order:
                    order.append(k)
            except ValueError:
                E.prove(frozen, "add refused although the map is not frozen")
                E.prove([(id(s), ix) for s, ix in em.sources()] == before, "refused add changed the map")
            try:
                other.add(srcs[2 - k])
            except ValueError:
                pass
            E.prove(em.size == len(order), "size = number of distinct sources added")
            for j in range(3):
                try:
                    ix = em.index(srcs[j])
                    E.prove(j in order and ix == order.index(j), "numbers are dense, stable and in order of first addition")
                except KeyError:
                    E.prove(j not in order, "an added source has no index")
            listed = [(srcs.index(s), ix) for s, ix in em.sources()]
            E.prove(sorted(listed, key=lambda x: x[1]) == [(j, p) for p, j in enumerate(order)],
                    "sources() lists every source with its index")
        E.observe(tuple(order), em.size)
    return h


def check_eventmap(cfg, out, stats):
    out.extra = {}
    run_harness(PROPERTY, cfg, harness_for(cfg), [event], out, stats, label=f"eventmap-{cfg['calls']}-calls",
                max_paths=100_000)


def replay_eventmap(v):
    return replay_concrete(harness_for(v["cfg"]), v)
