"""C04 - CSR multiplexer reads are atomic snapshots and side-effect exact.

E1: csr.Multiplexer.elaborate (with _Shadow.add/prepare/decode_address/encode_offset executed for
real on each layout) is translated; registers are stubs whose r_data is a free input every cycle.
"""
import z3

from . import mux as M
from ..bmc import is1, bv, in_range, zext, slice_zext
from ..e1 import Q, run_queries, replay as _replay

PROPERTY = "C04"
LEVEL = "model_checking"
META = {
    "engine": "E1 nir2smt; free-state windows (every history), reset-rooted replay of counterexamples",
    "encoded": ["csr.bus.Multiplexer.__init__", "csr.bus.Multiplexer.elaborate", "csr.bus.Multiplexer._Shadow.add",
                "csr.bus.Multiplexer._Shadow.prepare", "csr.bus.Multiplexer._Shadow.decode_address",
                "csr.bus.Multiplexer._Shadow.encode_offset", "memory.MemoryMap.add_resource"],
    "also": 'CSR data widths 7/12/24/32/64, high addresses (8-, 10- and 16-bit address spaces, last address included), registers of 5 and 8 bus words in the quick tier too, registers added after the multiplexer exists, decode_address probed before adds, access modes given as enum members, warm-up instance, second elaboration of the same object',
    "bounds": "data width 8/16 (thorough 8/16/32), addr width 3-5, 1-4 registers of width 0..4 bus words "
              "(thorough ..6), r/w/rw, implicit / explicit unaligned / per-register alignment / padded placement, map "
              "alignment 0-2, shadow_overlaps in {None,0,1,2,3}; windows: 1-2 free frames for the ALL-sequence "
              "clauses, 2n+2 free frames for an n-chunk read transaction with gaps of 0..1 cycles (longer gaps are "
              "covered by the idle-collapse and unmapped=idle lemmas, proved per layout)",
    "outside": "registers longer than 4 (6) chunks, more than 4 registers, behaviour under rst; layouts the "
               "multiplexer refuses (ValueError) are skipped and counted",
    "assumptions": ["Conf(R): strobes only at addresses of R or unmapped addresses; read addresses hitting R strictly "
                    "ascending, write addresses likewise; reads and writes may coincide",
                    "a chunk beyond the register width reads zero (zero-extension of the slice)"],
}


def configs(tier, seed):
    return M.layouts(tier, seed, 4)


maker = M.maker


def queries(h, cfg):
    dw = cfg["dw"]
    qs = []
    readable = [(r, s, e) for r, s, e in M.reg_ranges(h) if r.element.access.readable()]

    def strobe_exact(h, fr):
        f = fr[0]
        bus = h.mux.bus
        bad = []
        for r, s, e in M.reg_ranges(h):
            if not r.element.access.readable():
                continue
            exp = z3.And(is1(f.sig(bus.r_stb)), zext(f.sig(bus.addr), bus.addr_width + 2) == bv(bus.addr_width + 2, s))
            bad.append(is1(f.sig(r.element.r_stb)) != exp)
        return [], z3.Or(*bad) if bad else z3.BoolVal(False)
    if readable:
        qs.append(Q("read-strobe-exact", 1, strobe_exact,
                    twin=lambda h, fr: ([], z3.Or(*[is1(fr[0].sig(r.element.r_stb)) for r, s, e in M.reg_ranges(h)
                                                      if r.element.access.readable()]))))

    def zero_idle(h, fr):
        f0, f1 = fr
        bus = h.mux.bus
        follows_read = z3.And(is1(f0.sig(bus.r_stb)), M.mapped(h, f0.sig(bus.addr), readable=True))
        return [], z3.And(f1.sig(bus.r_data) != 0, z3.Not(follows_read))
    qs.append(Q("r_data-zero-unless-after-read", 2, zero_idle))

    # ---- lemmas that let a window with gaps {0,1} stand for gaps of any length -------------------
    def idle_collapse(h, fr):
        bus = h.mux.bus
        a = [fr[0].sig(bus.r_stb) == 0, fr[0].sig(bus.w_stb) == 0, fr[1].sig(bus.r_stb) == 0, fr[1].sig(bus.w_stb) == 0]
        s1, s2 = fr[1].state, fr[2].state
        return a, z3.Or(*[s1[k] != s2[k] for k in s1]) if s1 else z3.BoolVal(False)

    for R, start, end in readable:
        n = end - start
        K = 2 * n + 2
        width = R.element.width

        def snapshot(h, fr, R=R, start=start, end=end, n=n, width=width):
            # R is re-fetched from the harness instance handed in (replay uses a fresh one)
            idx = [i for i, (r, s, e) in enumerate(M.reg_ranges(h)) if s == start][0]
            R = h.regs[idx]
            bus = h.mux.bus
            W = bus.addr_width + 2
            f0 = fr[0]
            assume = [is1(f0.sig(bus.r_stb)), zext(f0.sig(bus.addr), W) == bv(W, start)]
            assume += M.conf_single(h, fr[:-1], R, start, end)
            snap = f0.sig(R.element.r_data)
            bad = []
            for t in range(len(fr) - 1):
                f = fr[t]
                A = zext(f.sig(bus.addr), W)
                rs = is1(f.sig(bus.r_stb))
                nxt = fr[t + 1].sig(bus.r_data)
                for j in range(n):
                    exp = slice_zext(snap, j * dw, (j + 1) * dw, width, dw)
                    bad.append(z3.And(rs, A == bv(W, start + j), nxt != exp))
            return assume, z3.Or(*bad)

        def twin(h, fr, start=start, n=n, snapshot=snapshot):
            a, _ = snapshot(h, fr)
            bus = h.mux.bus
            W = bus.addr_width + 2
            f = fr[-2]
            return a, z3.And(is1(f.sig(bus.r_stb)), zext(f.sig(bus.addr), W) == bv(W, start + n - 1)) if n > 1 \
                else z3.BoolVal(True)
        qs.append(Q(f"snapshot-r{start}", K, snapshot, twin=twin, max_prefix=4))
    return qs


def lemma_queries(h, cfg):
    def idle_collapse(h, fr):
        bus = h.mux.bus
        a = [fr[0].sig(bus.r_stb) == 0, fr[0].sig(bus.w_stb) == 0, fr[1].sig(bus.r_stb) == 0, fr[1].sig(bus.w_stb) == 0]
        s1, s2 = fr[1].state, fr[2].state
        return a, z3.Or(*[s1[k] != s2[k] for k in s1]) if s1 else z3.BoolVal(False)
    return idle_collapse


def check(cfg, out, stats):
    import sys
    mod = sys.modules[__name__]
    try:
        h = maker(cfg)()
        h.translate()
    except ValueError as e:
        out.skipped = f"layout refused: {e}"
        return
    run_queries(mod, cfg, out, stats, cosim_cycles=16)
    lemmas(cfg, out, stats)


def lemmas(cfg, out, stats):
    """idle-collapse: T(T(S,i1),i2) = T(S,i1) for strobe-free inputs; unmapped = idle.  A failing lemma is
    not a property violation: it only means windows with gaps {0,1} no longer stand for all gaps -> exit 2."""
    from ..bmc import unroll, solve, Inconclusive
    h = maker(cfg)()
    ts = h.translate()
    bus = h.mux.bus
    frames, cons = unroll(ts, 3, init="free", tag="L")
    a = [frames[i].sig(getattr(bus, n)) == 0 for i in (0, 1) for n in ("r_stb", "w_stb")]
    s1, s2 = frames[1].state, frames[2].state
    if s1:
        r, _ = solve(cons + a + [z3.Or(*[s1[k] != s2[k] for k in s1])], stats, "lemma-idle-collapse", want_model=False)
        if r != "unsat":
            raise Inconclusive("idle-collapse lemma fails: bounded gaps do not generalise for this layout")
    # unmapped = idle: same state, same inputs except strobes forced low => same next state, no leaf strobe
    st = ts.free_state("U")
    inp = ts.free_inputs("Ui")
    fa = ts.frame(st, inp)
    names = {n: next(p for p, idx in ts.input_port_index.items() if h.ports[idx] is getattr(bus, n)) for n in ("r_stb", "w_stb")}
    inp2 = dict(inp)
    for n in names.values():
        inp2[n] = bv(1, 0)
    fb = ts.frame(st, inp2)
    na, nb = fa.next_state(), fb.next_state()
    cons2 = [inp["rst"] == 0] if "rst" in inp else []
    unm = z3.Not(M.mapped(h, fa.sig(bus.addr)))
    strobes = [is1(fa.sig(r.element.r_stb)) for r in h.regs if r.element.access.readable()]
    diff = [na[k] != nb[k] for k in na]
    if diff or strobes:
        r, _ = solve(cons2 + [unm, z3.Or(*(diff + strobes))], stats, "lemma-unmapped-is-idle", want_model=False)
        if r != "unsat":
            raise Inconclusive("unmapped=idle lemma fails for this layout")


def replay(v):
    import sys
    return _replay(sys.modules[__name__], v)
