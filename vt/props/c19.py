"""C19 - every accepted component elaborates, terminates, and does so repeatably.

For a zoo of components drawn from the configuration families of all the netlist checks (plus register
bridges over csr.Builder maps with Cluster/Index scopes), each instance is
  1. elaborated under a guard: an exception that is not a descriptive ValueError/TypeError raised by the
     toolkit itself (a `raise` statement in amaranth_soc) is an internal error;
  2. elaborated a second time from the SAME instance: an exception is a violation;
  3. compared: a reset-rooted bounded miter (E1, shared input variables) between the netlists of the
     first and second elaboration decides "same hardware" for every input sequence of D cycles;
  4. checked for metadata drift: memory_map.all_resources() before = after.
Non-termination shows up as RecursionError (internal error) or as the hard per-configuration deadline.
"""
import importlib
import linecache
import os
import random
import sys
import traceback

import z3

from ..bmc import Harness, flat_ports, unroll, solve, model_stimulus, simulate, Inconclusive, mark_violation
from ..e1 import cfg_key

PROPERTY = "C19"
LEVEL = "model_checking"
FAMILIES = ["c04", "c06", "c07", "c08", "c10", "c11", "c12", "c13", "c14", "c15", "c16"]
META = {
    "engine": "E1 nir2smt (three netlists of one instance - first, second, and one elaborated for a platform object - reset-rooted miters with shared inputs) + guarded, time-limited elaboration",
    "encoded": ["elaborate() of csr.Multiplexer, csr.Decoder, csr.Bridge, csr.Register and field actions, "
                "csr.EventMonitor, event.Monitor, WishboneCSRBridge, wishbone.Decoder, wishbone.Arbiter, WishboneSRAM, "
                "gpio.Peripheral", "csr.bus.Multiplexer._Shadow.prepare (termination, by execution)"],
    "also": 'multiplexers probed before / extended after construction; arbiters with a shared-bus memory map; post-elaboration add() compared with a never-elaborated twin; index-vs-digit register names; symbolic (16-bit vector) shadow-balancing termination harness; calls that must be refused on maps holding anonymous windows (descriptive refusal, not an internal error); registers that must be refused; degenerate instances (empty decoders/multiplexers/monitors, arbiter without initiators, one pin, two words)',
    "bounds": "a seeded sample of the quick configuration families of C04,C06-C08,C10-C16 (thorough: 4x larger, "
              "from the thorough families) + register bridges over csr.Builder maps with Cluster/Index scopes and "
              "colliding flattened names; two elaborations per instance; miter depth D = 8 frames from reset",
    "outside": "parameter combinations outside those families; more than two elaborations (the second already runs on "
               "the state the first left behind); equivalence beyond D frames from reset",
    "assumptions": ["a refusal counts as descriptive iff it is a ValueError/TypeError raised by a `raise` statement "
                    "inside amaranth_soc"],
}
D = 8


def configs(tier, seed):
    rnd = random.Random(seed + 1919)
    out = []
    per = 12 if tier == "quick" else 60
    for fam in FAMILIES:
        mod = importlib.import_module(f"vt.props.{fam}")
        allc = list(mod.configs(tier, seed))
        cfgs = [c for c in allc if "miter" not in c and not c.get("table") and not c.get("flat")
                and not c.get("inreg") and c.get("kind") != "eventmap"]
        rnd2 = random.Random(seed + hash(fam) % 1000)
        pick = cfgs if len(cfgs) <= per else rnd2.sample(cfgs, per)
        for c in pick:
            out.append({"fam": fam, "cfg": c})
        if fam == "c11":
            # registers that must be REFUSED (a field the register cannot serve): refused descriptively at
            # construction - or, if accepted after all, they must elaborate like everything else
            tab = [c for c in allc if c.get("table")]
            single = [c for c in tab if "leaf" in c["tree"]]
            for c in single + rnd2.sample([c for c in tab if c not in single], min(12, len(tab) - len(single))):
                out.append({"fam": fam, "cfg": c})
    # register bridges over builder maps
    scopes = [[], [["c", "blk"]], [["i", 0]], [["c", "x"], ["i", 3]], [["i", 1], ["c", "y"]]]
    names = ["r", "mux", "a__b", "status"]
    for i in range(16 if tier == "quick" else 80):
        regs = [{"name": rnd.choice(names) + (str(j) if rnd.random() < 0.6 else ""), "w": rnd.choice([1, 8, 12, 33]),
                 "scope": rnd.choice(scopes)} for j in range(rnd.randint(1, 3))]
        out.append({"fam": "bridge", "cfg": {"aw": 6, "dw": rnd.choice([8, 16]), "regs": regs}})
    out.append({"fam": "bridge", "cfg": {"aw": 5, "dw": 8, "regs": [{"name": "mux", "w": 8, "scope": []}]}})
    out.append({"fam": "bridge", "cfg": {"aw": 5, "dw": 8, "regs": [{"name": "a__b", "w": 8, "scope": []},
                                                                    {"name": "b", "w": 8, "scope": [["c", "a"]]}]}})
    out.append({"fam": "bridge", "cfg": {"aw": 5, "dw": 8, "regs": [{"name": "r", "w": 8, "scope": [["i", 0]]}]}})
    # names that differ only in where an index sits relative to a digit-terminated part (distinct under "__".join)
    out.append({"fam": "bridge", "cfg": {"aw": 5, "dw": 8, "regs": [{"name": "ctrl", "w": 8, "scope": [["c", "bank"], ["i", 1]]},
                                                                    {"name": "ctrl", "w": 8, "scope": [["c", "bank1"]]}]}})
    out.append({"fam": "bridge", "cfg": {"aw": 5, "dw": 8, "regs": [{"name": "cfg", "w": 8, "scope": [["c", "lane"], ["i", 1], ["i", 2]]},
                                                                    {"name": "cfg", "w": 8, "scope": [["c", "lane"], ["i", 12]]}]}})
    out.append({"fam": "bridge", "cfg": {"aw": 5, "dw": 8, "regs": [{"name": "x", "w": 8, "scope": [["c", "a"], ["i", 0]]},
                                                                    {"name": "x", "w": 8, "scope": [["c", "a0"]]},
                                                                    {"name": "a_0_x", "w": 8, "scope": []}]}})
    # multiplexers whose map was probed (decode_address) before the registers were added, registers added late
    for i in range(6 if tier == "quick" else 30):
        regs = [{"w": rnd.choice([8, 12, 24]), "acc": rnd.choice(["r", "rw"]), "addr": a}
                for a in sorted(rnd.sample(range(0, 16, 4), rnd.randint(1, 3)))]
        out.append({"fam": "c04", "cfg": {"dw": 8, "aw": 4, "align": 0, "regs": regs, "ov": None,
                                          "probe": True, "late": bool(i % 2)}})
    for n in (1, 2, 3):
        out.append({"fam": "arbmap", "cfg": {"n": n}})
    # decoders: after elaboration the public API must behave as on a twin that was never elaborated
    for kind in ("csrdec", "wbdec"):
        for i in range(3):
            out.append({"fam": "api", "cfg": {"kind": kind, "n": i + 1}})
    for what in REFUSALS:
        out.append({"fam": "refusal", "cfg": {"what": what}})
    # registers whose field names meet under a flattening: a nested path next to a sibling spelled with '_' / '__'
    for what in REGNAMES:
        out.append({"fam": "regnames", "cfg": {"what": what}})
    # degenerate instances every constructor accepts: nothing attached, a single element, one direction only
    for what in DEGENERATE:
        out.append({"fam": "degenerate", "cfg": {"what": what}})
    from .c19_shadow import configs as shadow_configs
    out += shadow_configs(tier)
    return out


def _degenerate():
    from amaranth_soc import csr, wishbone, event, gpio
    from amaranth_soc.csr.event import EventMonitor
    from amaranth_soc.csr.wishbone import WishboneCSRBridge
    from amaranth_soc.wishbone.sram import WishboneSRAM
    from amaranth_soc.memory import MemoryMap
    from .mux import StubReg

    def mux(accs):
        def f():
            mm = MemoryMap(addr_width=4, data_width=8)
            regs = []
            for i, a in enumerate(accs):
                regs.append(StubReg(12, a))
                mm.add_resource(regs[-1], name=(f"r{i}",), size=2)
            m = csr.Multiplexer(mm)
            return Harness(m, flat_ports(m, *regs), mux=m)
        return f

    def mux_sparse():
        mm = MemoryMap(addr_width=40, data_width=8)
        regs = [StubReg(8, "rw"), StubReg(8, "rw")]
        mm.add_resource(regs[0], name=("lo",), size=1, addr=0)
        mm.add_resource(regs[1], name=("hi",), size=1, addr=1 << 39)
        m = csr.Multiplexer(mm, shadow_overlaps=0)
        return Harness(m, flat_ports(m, *regs), mux=m)

    def mux_wide_regs():
        # registers wider than the address range they were given (32 bits in one and in two 8-bit words)
        mm = MemoryMap(addr_width=4, data_width=8)
        regs = [StubReg(32, "rw"), StubReg(32, "rw"), StubReg(12, "r")]
        mm.add_resource(regs[0], name=("a",), size=1)
        mm.add_resource(regs[1], name=("b",), size=2)
        mm.add_resource(regs[2], name=("c",), size=1)
        m = csr.Multiplexer(mm)
        return Harness(m, flat_ports(m, *regs), mux=m)

    def csr_dec():
        d = csr.Decoder(addr_width=4, data_width=8)
        return Harness(d, flat_ports(d), dec=d)

    def wb_dec():
        d = wishbone.Decoder(addr_width=4, data_width=16, granularity=8, features={"err"})
        return Harness(d, flat_ports(d), dec=d)

    def wb_dec_narrow():
        # sparse windows NARROWER than one data word: 8-bit peripherals with 1 and 2 addresses behind a 32-bit decoder
        d = wishbone.Decoder(addr_width=6, data_width=32, granularity=8)
        subs = []
        for i, aw in enumerate((1, 2, 0)):
            if aw == 0:
                continue
            b = wishbone.Interface(addr_width=aw, data_width=8, granularity=8, path=(f"p{i}",))
            b.memory_map = MemoryMap(addr_width=aw, data_width=8)
            d.add(b, sparse=True)
            subs.append(b)
        return Harness(d, flat_ports(d, *subs), dec=d)

    def arb0():
        a = wishbone.Arbiter(addr_width=4, data_width=16, granularity=8)
        return Harness(a, flat_ports(a), arb=a)

    def evmap0():
        m = event.Monitor(event.EventMap())
        return Harness(m, flat_ports(m), mon=m)

    def evmap300():
        em = event.EventMap()
        srcs = [event.Source(trigger=("level", "rise", "fall")[i % 3], path=(f"s{i}",)) for i in range(700)]
        for s_ in srcs:
            em.add(s_)
        m = event.Monitor(em)
        ports = flat_ports(m) + flat_ports(*srcs, env="out")
        from ..nir2smt import raw
        ports.env.discard(id(raw(m.pending)))       # declared In, driven by the monitor itself
        return Harness(m, ports, mon=m)

    def evmon0():
        m = EventMonitor(event.EventMap(), data_width=8)
        return Harness(m, flat_ports(m), mon=m)

    def gpio1():
        g = gpio.Peripheral(pin_count=1, addr_width=4, data_width=8, input_stages=0)
        return Harness(g, flat_ports(g), dut=g)

    def sram1():
        d = WishboneSRAM(size=2, data_width=8, granularity=8)
        return Harness(d, flat_ports(d), dut=d)

    def bridge_empty():
        b = csr.Bridge(MemoryMap(addr_width=2, data_width=8))
        return Harness(b, flat_ports(b), br=b)

    def wbcsr_min():
        bus = csr.Interface(addr_width=1, data_width=8, path=("csr",))
        bus.memory_map = MemoryMap(addr_width=1, data_width=8)
        br = WishboneCSRBridge(bus)
        return Harness(br, flat_ports(br, bus), br=br, bus=bus)

    def mux_twins():
        # two multiplexers over IDENTICAL layouts (two instances of one peripheral) in one design, with a sharing limit
        # that forces the shadows to be re-balanced: they must not share anything
        from amaranth.hdl import Module
        top = Module()
        regs, muxes = [], []
        for k in range(2):
            mm = MemoryMap(addr_width=4, data_width=8)
            for i, (w, addr) in enumerate(((8, 0), (8, 1), (8, 2), (16, 3), (8, 5), (24, 9), (8, 12))):
                r = StubReg(w, "rw")
                mm.add_resource(r, name=(f"r{i}",), size=(w + 7) // 8, addr=addr)
                regs.append(r)
            mx = csr.Multiplexer(mm, shadow_overlaps=1)
            top.submodules[f"mux{k}"] = mx
            muxes.append(mx)
        return Harness(top, flat_ports(*muxes, *regs), muxes=muxes)

    def csr_dec_frozen():
        # a decoder whose OWN memory map is frozen (it is a window of an outer map already, as when nested in another
        # decoder or placed behind a bridge), elaborated on its own - repeatedly, like every member of this family
        d = csr.Decoder(addr_width=5, data_width=8)
        subs = []
        for i in range(3):
            b = csr.Interface(addr_width=2, data_width=8, path=(f"p{i}",))
            b.memory_map = MemoryMap(addr_width=2, data_width=8)
            d.add(b)
            subs.append(b)
        outer = csr.Decoder(addr_width=8, data_width=8)
        outer.add(d.bus)
        return Harness(d, flat_ports(d, *subs), dec=d)

    def wb_dec_frozen():
        d = wishbone.Decoder(addr_width=5, data_width=8, granularity=8)
        subs = []
        for i in range(3):
            b = wishbone.Interface(addr_width=2, data_width=8, granularity=8, path=(f"p{i}",))
            b.memory_map = MemoryMap(addr_width=2, data_width=8)
            d.add(b)
            subs.append(b)
        d.bus.memory_map.freeze()
        return Harness(d, flat_ports(d, *subs), dec=d)

    return {"two-identical-multiplexers-in-one-design": mux_twins, "csr-decoder-with-frozen-map": csr_dec_frozen, "wishbone-decoder-with-frozen-map": wb_dec_frozen,
            "mux-registers-wider-than-their-ranges": mux_wide_regs, "mux-sparse-40-bit-no-sharing": mux_sparse, "mux-empty": mux([]), "mux-write-only": mux(["w", "w"]), "mux-read-only": mux(["r"]), "csr-decoder-empty": csr_dec,
            "wishbone-decoder-empty": wb_dec, "wishbone-decoder-sub-word-sparse-windows": wb_dec_narrow, "arbiter-no-initiators": arb0, "event-monitor-no-events": evmap0, "event-monitor-700-events": evmap300,
            "csr-event-monitor-no-events": evmon0, "gpio-one-pin": gpio1, "sram-two-words": sram1,
            "bridge-empty-map": bridge_empty, "wishbone-csr-bridge-minimal": wbcsr_min}


REGNAMES = {"nested-vs-underscore": lambda F: {"rx": {"en": F()}, "rx_en": F()},
            "list-vs-underscore": lambda F: {"ch": [F(), F()], "ch_0": F()},
            "nested-vs-double-underscore": lambda F: {"rx": {"en": F()}, "rx__en": F()},         # finding D7
            "list-vs-double-underscore": lambda F: {"ch": [F(), F()], "ch__0": F()}}            # finding D7


def _regnames_maker(cfg):
    from amaranth_soc import csr

    def make():
        from ..bmc import Ports
        from ..nir2smt import raw
        reg = csr.Register(REGNAMES[cfg["what"]](lambda: csr.Field(csr.action.RW, 3)), access="rw")
        ports = Ports()
        for path, member, s_ in reg.signature.flatten(reg):
            s_ = raw(s_)
            ports.append(s_)
            if path[-1] in ("r_stb", "w_stb", "w_data"):
                ports.env.add(id(s_))          # the bus side drives strobes and write data
        return Harness(reg, ports, reg=reg)
    return make


def _known_register_collision(item):
    """finding D7 is exactly: two fields of one register whose paths flatten to the same string under
    '__'.join(str(part))"""
    return item.get("fam") == "regnames" and "double-underscore" in item["cfg"]["what"]


def _refusal(what):
    """A call the library must refuse, made on maps that hold anonymous windows with content (their names are merged
    into the parent).  Returns the exception (or None if the call was accepted)."""
    from amaranth_soc import csr, wishbone
    from amaranth_soc.csr.wishbone import WishboneCSRBridge
    from amaranth_soc.memory import MemoryMap
    from .mux import StubReg

    def mux_bus(n, aw=3):
        mm = MemoryMap(addr_width=aw, data_width=8)
        mm.add_resource(StubReg(8, "rw"), name=(f"reg{n}",), size=1)
        return csr.Multiplexer(mm).bus

    dec = csr.Decoder(addr_width=8, data_width=8)
    a = mux_bus(0)
    dec.add(a)                                   # anonymous window with content
    wbdec = wishbone.Decoder(addr_width=8, data_width=8, granularity=8)
    inner = csr.Decoder(addr_width=4, data_width=8)
    inner.add(mux_bus(1))
    br = WishboneCSRBridge(inner.bus)            # wraps the CSR map anonymously
    wbdec.add(br.wb_bus)
    try:
        if what == "csr-add-twice":
            dec.add(a)
        elif what == "csr-add-overlap":
            dec.add(mux_bus(2), addr=0)
        elif what == "csr-add-name-clash":
            dec.add(mux_bus(0))                  # register name ('reg0',) is already visible through the anonymous window
        elif what == "csr-add-out-of-bounds":
            dec.add(mux_bus(3), addr=1 << 8)
        elif what == "csr-add-after-freeze":
            dec.bus.memory_map.freeze()
            dec.add(mux_bus(4))
        elif what == "wb-add-twice":
            wbdec.add(br.wb_bus)
        elif what == "wb-add-overlap":
            other = WishboneCSRBridge(mux_bus(5))
            wbdec.add(other.wb_bus, addr=0)
        elif what == "wb-add-after-freeze":
            wbdec.bus.memory_map.freeze()
            wbdec.add(WishboneCSRBridge(mux_bus(6)).wb_bus)
        elif what == "map-add-resource-after-freeze":
            mm = dec.bus.memory_map
            mm.freeze()
            mm.add_resource(StubReg(8, "rw"), name=("late",), size=1)
        elif what == "map-window-into-itself-twice":
            mm = MemoryMap(addr_width=10, data_width=8)
            mm.add_window(dec.bus.memory_map)
            mm.add_window(dec.bus.memory_map)
        else:
            raise KeyError(what)
    except BaseException as e:       # noqa: the kind of exception is the subject
        return e
    return None


REFUSALS = ["csr-add-twice", "csr-add-overlap", "csr-add-name-clash", "csr-add-out-of-bounds", "csr-add-after-freeze",
            "wb-add-twice", "wb-add-overlap", "wb-add-after-freeze", "map-add-resource-after-freeze",
            "map-window-into-itself-twice"]

DEGENERATE = ["two-identical-multiplexers-in-one-design", "csr-decoder-with-frozen-map", "wishbone-decoder-with-frozen-map", "mux-registers-wider-than-their-ranges", "mux-sparse-40-bit-no-sharing", "mux-empty", "mux-write-only", "mux-read-only", "csr-decoder-empty", "wishbone-decoder-empty", "wishbone-decoder-sub-word-sparse-windows",
              "arbiter-no-initiators", "event-monitor-no-events", "event-monitor-700-events", "csr-event-monitor-no-events", "gpio-one-pin",
              "sram-two-words", "bridge-empty-map", "wishbone-csr-bridge-minimal"]


def _bridge_maker(cfg):
    import contextlib
    from amaranth_soc import csr

    class Reg(csr.Register, access="rw"):
        def __init__(self, w):
            super().__init__({"f": csr.Field(csr.action.RW, w)})

    def make():
        b = csr.Builder(addr_width=cfg["aw"], data_width=cfg["dw"])
        for r in cfg["regs"]:
            with contextlib.ExitStack() as st:
                for kind, val in r["scope"]:
                    st.enter_context(b.Cluster(val) if kind == "c" else b.Index(val))
                b.add(r["name"], Reg(r["w"]))
        br = csr.Bridge(b.as_memory_map())
        return Harness(br, flat_ports(br), br=br)
    return make


def _arbmap_maker(cfg):
    """An arbiter whose shared bus has been given a memory map (optional metadata), initiators without one."""
    from amaranth_soc import wishbone
    from amaranth_soc.memory import MemoryMap

    def make():
        arb = wishbone.Arbiter(addr_width=4, data_width=16, granularity=8)
        arb.bus.memory_map = MemoryMap(addr_width=5, data_width=8)
        intrs = [wishbone.Interface(addr_width=4, data_width=16, granularity=(8 if i % 2 == 0 else 16), path=(f"i{i}",))
                 for i in range(cfg["n"])]
        for it in intrs:
            arb.add(it)
        return Harness(arb, flat_ports(arb) + flat_ports(*intrs, env="out"), arb=arb, intrs=intrs)
    return make


def maker(item):
    if item["fam"] == "bridge":
        return _bridge_maker(item["cfg"])
    if item["fam"] == "arbmap":
        return _arbmap_maker(item["cfg"])
    if item["fam"] == "degenerate":
        return _degenerate()[item["cfg"]["what"]]
    if item["fam"] == "regnames":
        return _regnames_maker(item["cfg"])
    mod = importlib.import_module(f"vt.props.{item['fam']}")
    return mod.maker(item["cfg"])


def is_refusal(exc):
    """descriptive refusal = ValueError/TypeError raised by a `raise` statement inside amaranth_soc."""
    if not isinstance(exc, (ValueError, TypeError)):
        return False
    tb = traceback.extract_tb(exc.__traceback__)
    if not tb:
        return False
    last = tb[-1]
    return (os.sep + "amaranth_soc" + os.sep) in last.filename and (last.line or "").lstrip().startswith("raise")


class _Platform:
    """Stands for a synthesis platform: elaborate() receives this object instead of None (the simulator's and plain
    rtlil.convert's value).  What a component builds must not depend on it."""


class _WithPlatform:
    pass


def _with_platform(top):
    from amaranth.hdl import Elaboratable, Fragment

    class Shim(Elaboratable):
        def elaborate(self, platform):
            return Fragment.get(top, _Platform())
    return Shim()


class _Timeout(Exception):
    pass


ELAB_LIMIT_S = 60


def _timed(fn):
    """run fn() under a wall-clock limit (the process is single-threaded; SIGALRM interrupts pure-Python loops)"""
    import signal

    def on_alarm(signum, frame):
        raise _Timeout()
    old = signal.signal(signal.SIGALRM, on_alarm)
    signal.setitimer(signal.ITIMER_REAL, ELAB_LIMIT_S)
    try:
        return fn()
    finally:
        signal.setitimer(signal.ITIMER_REAL, 0)
        signal.signal(signal.SIGALRM, old)


def _maps(h):
    """Public metadata reachable from the harness objects: for every bus interface whether it has a memory map,
    and (path, start, end, width) of every resource of every map."""
    out = []
    seen = set()
    objs = []
    for v in list(vars(h).values()) + [h.top]:
        objs.extend(v if isinstance(v, (list, tuple)) else [v])
    for v in objs:
        cands = [v] + [getattr(v, a, None) for a in ("bus", "wb_bus", "csr_bus")]
        for b in cands:
            if b is None or not hasattr(type(b), "memory_map") and not hasattr(b, "memory_map"):
                continue
            try:
                mm = b.memory_map
            except AttributeError:
                out.append(("no-map", type(b).__name__))
                continue
            except Exception:
                continue
            if id(mm) in seen:
                continue
            seen.add(id(mm))
            out.append([(tuple(tuple(n) for n in i.path), i.start, i.end, i.width) for i in mm.all_resources()])
    return out


def _comp_name(h):
    t = h.top
    return type(t).__module__.replace("amaranth_soc.", "") + "." + type(t).__qualname__


def _violation(out, item, key, what, extra=None):
    mark_violation(key)
    out.violations.append(dict({"key": key, "what": what, "query": key.split(":")[0], "cfg": item, "stimulus": [],
                                "prefix": 0, "k": 0, "detail": {}}, **(extra or {})))


def _known_bridge_collision(item):
    """The recorded finding D6 is exactly: a register named 'mux', or two register names that collide under the
    '__'.join(str(part)) flattening.  Any other NameError from Bridge.elaborate is a different violation."""
    if item.get("fam") != "bridge":
        return False
    flat = ["__".join([str(v) for _, v in r["scope"]] + [r["name"]]) for r in item["cfg"]["regs"]]
    return "mux" in flat or len(set(flat)) != len(flat)


def _site(exc):
    tb = traceback.extract_tb(exc.__traceback__)
    for fr in reversed(tb):
        if (os.sep + "amaranth_soc" + os.sep) in fr.filename:
            return f"{os.path.basename(fr.filename)}:{fr.name}"
    return "?"


def _api_twin(cfg):
    """Build two identical decoders, elaborate one of them twice, then make the same add() on both."""
    from amaranth.hdl import Fragment
    from amaranth_soc import csr, wishbone
    from amaranth_soc.memory import MemoryMap

    def build():
        if cfg["kind"] == "csrdec":
            dec = csr.Decoder(addr_width=8, data_width=8)
            def sub(i):
                b = csr.Interface(addr_width=3, data_width=8, path=(f"s{i}",))
                b.memory_map = MemoryMap(addr_width=3, data_width=8)
                return b
        else:
            dec = wishbone.Decoder(addr_width=8, data_width=16, granularity=8)
            def sub(i):
                b = wishbone.Interface(addr_width=3, data_width=16, granularity=8, path=(f"s{i}",))
                b.memory_map = MemoryMap(addr_width=4, data_width=8)
                return b
        for i in range(cfg["n"]):
            dec.add(sub(i))
        return dec, sub
    a, sub_a = build()
    b, sub_b = build()
    Fragment.get(a, None)
    Fragment.get(a, None)
    res = []
    for dec, sub in ((a, sub_a), (b, sub_b)):
        try:
            res.append(("ok", tuple(dec.add(sub(99)))))
        except Exception as e:
            res.append(("raise", type(e).__name__, str(e)[:80]))
        res.append([(tuple(map(tuple, [n] if n else [])), r) for _, n, r in dec.bus.memory_map.windows()])
    return res[:2], res[2:]


def check(item, out, stats):
    if item.get("fam") == "api":
        out.extra = {"components": 1}
        x, y = _api_twin(item["cfg"])
        if x != y:
            _violation(out, item, f"metadata-drift:api:{item['cfg']['kind']}",
                       f"C19 after elaboration {item['cfg']['kind']}.add() behaves differently from a twin that was "
                       f"never elaborated: {x[0]} vs {y[0]}")
        return
    if item.get("shadow"):
        from .c19_shadow import check_shadow
        return check_shadow(item, out, stats)
    if item.get("fam") == "refusal":
        out.extra = {"components": 1}
        e = _refusal(item["cfg"]["what"])
        if e is None:
            _violation(out, item, f"accepted:{item['cfg']['what']}", f"C19 a call that must be refused was accepted: {item['cfg']['what']}")
        elif not is_refusal(e):
            _violation(out, item, f"internal-error:refusal:{item['cfg']['what']}:{type(e).__name__}:{_site(e)}",
                       f"C19 a call that must be refused ({item['cfg']['what']}) fails with an internal {type(e).__name__}: "
                       f"{str(e)[:100]} instead of a descriptive ValueError/TypeError")
        return
    from ..nir2smt import TS
    out.extra = {"components": 1}
    make = maker(item)
    # two other members of the same family are built and elaborated first: whether (and to what) this component
    # elaborates must not depend on what else has been elaborated in the process.  (A difference in BEHAVIOUR caused by
    # such history is judged by the owning checks - e1.history_of - whose oracles are absolute; the miter below
    # compares two elaborations that share the history.)
    import zlib
    from amaranth.hdl import Fragment
    sibs = [c for c in (globals().get("_ALL_CONFIGS") or []) if isinstance(c, dict) and c.get("fam") == item.get("fam")
            and c is not item and not c.get("shadow")]
    x = zlib.crc32(cfg_key(item).encode())
    for j in range(2):
        if sibs:
            try:
                Fragment.get(maker(sibs[(x >> (8 * j)) % len(sibs)])().top, None)
            except Exception:
                pass
    try:
        h = make()
    except (ValueError, TypeError) as e:
        if is_refusal(e):
            out.skipped = "refused at construction"
            out.extra["refused"] = 1
            return
        return _violation(out, item, f"internal-error:construct:{type(e).__name__}:{_site(e)}",
                          f"C19 constructing a component of family {item['fam']} failed with an internal "
                          f"{type(e).__name__}: {str(e)[:100]} ({cfg_key(item)})")
    name = _comp_name(h)
    before = _maps(h)
    sys.setrecursionlimit(1200)
    ts = []
    for n in (1, 2, 3):
        try:
            # elaboration #3 hands elaborate() a platform object instead of None
            ts.append(_timed(lambda: TS(h.top, h.ports, env=h.env, platform=_Platform() if n == 3 else None)))
        except _Timeout:
            return _violation(out, item, f"internal-error:{name}:does-not-terminate",
                              f"C19 elaboration #{n} of {name} does not finish within {ELAB_LIMIT_S} s ({cfg_key(item)})",
                              {"elab": n})
        except (ValueError, TypeError) as e:
            if n == 1 and is_refusal(e):
                out.skipped = "refused at elaboration"
                out.extra["refused"] = 1
                return
            kind = "internal-error" if n == 1 else ("re-elaborate" if n == 2 else "platform-dependent")
            return _violation(out, item, f"{kind}:{name}:{type(e).__name__}:{_site(e)}",
                              f"C19 elaboration #{n} of {name} failed with {type(e).__name__}: {str(e)[:100]} "
                              f"({cfg_key(item)})", {"elab": n})
        except Inconclusive:
            raise
        except Exception as e:
            from ..nir2smt import Unsupported
            if isinstance(e, Unsupported):
                raise
            kind = "internal-error" if n == 1 else ("re-elaborate" if n == 2 else "platform-dependent")
            key = f"{kind}:{name}:{type(e).__name__}:{_site(e)}"
            if type(e).__name__ == "NameError" and item.get("fam") == "bridge" and not _known_bridge_collision(item):
                key += ":names-distinct-under-__join"
            if type(e).__name__ == "NameError" and item.get("fam") != "bridge" and not _known_register_collision(item):
                key += ":names-distinct-under-__join"
            return _violation(out, item, key,
                              f"C19 elaboration #{n} of {name} failed with {type(e).__name__}: {str(e)[:100]} "
                              f"({cfg_key(item)})", {"elab": n})
        except RecursionError as e:
            return _violation(out, item, f"internal-error:{name}:RecursionError:{_site(e)}",
                              f"C19 elaboration #{n} of {name} does not terminate (RecursionError) ({cfg_key(item)})",
                              {"elab": n})
    for t in ts:
        t.bind_memories([])
    after = _maps(h)
    if after != before:
        return _violation(out, item, f"metadata-drift:{name}",
                          f"C19 elaborating {name} changed its memory map ({cfg_key(item)})")
    ta = ts[0]
    out.extra["outputs_syntactically_identical"] = 0
    for which, tb in (("second", ts[1]), ("platform", ts[2])):
        if ta.inputs != tb.inputs:
            return _violation(out, item, f"different-hardware:{name}:ports:{which}",
                              f"C19 the {which} elaboration of {name} exposes different input ports ({cfg_key(item)})")
        fa, ca = unroll(ta, D, init="reset", tag="m")
        fb, cb = unroll(tb, D, init="reset", tag="m")
        in_idx = set(ta.input_port_index.values())
        obs = [s for i, s in enumerate(h.ports) if i not in in_idx and len(s) and ta.has(s) and tb.has(s)]
        diffs = []
        identical = 0
        for t in range(D):
            for s in obs:
                x, y = fa[t].sig(s), fb[t].sig(s)
                if x.eq(y):
                    identical += 1          # hash-consed to the same term: syntactically the same function of the inputs
                else:
                    diffs.append(x != y)
        out.extra["outputs_syntactically_identical"] += identical
        if not diffs:
            continue
        r, m = solve(ca + [z3.Or(*diffs)], stats, f"{which}-elaboration-miter")
        if len(stats.samples) < 5:
            stats.samples.append({"component": name, "cfg": item, "query": f"{which}-elaboration miter", "frames": D,
                                  "outputs_compared": len(obs), "verdict": r})
        if r == "sat":
            stim = model_stimulus(ta, fa, m)
            v = {"stimulus": stim, "which": which}
            if not _replay_miter(item, stim, which):
                raise Inconclusive(f"{which}-elaboration miter counterexample does not reproduce on the simulator")
            stats.replays += 1
            what = ("the second elaboration of one {n} instance behaves differently from the first" if which == "second" else
                    "one {n} instance elaborated for a platform object behaves differently from the same instance "
                    "elaborated with platform=None").format(n=name)
            return _violation(out, item, f"different-hardware:{name}" + ("" if which == "second" else ":platform"),
                              f"C19 {what} ({D} cycles from reset) ({cfg_key(item)})", v)
        if r != "unsat":
            raise Inconclusive(f"{which}-elaboration miter undecided")


def _replay_miter(item, stim, which="second"):
    """simulate the same instance twice (second: both with platform=None; platform: the second time through a shim
    that elaborates it for a platform object)"""
    h = maker(item)()
    traces = []
    for n in (1, 2):
        obs = [s for s in h.ports if len(s) and id(s) not in h.env]
        if n == 2 and which == "platform":
            top = h.top
            h.top = _with_platform(top)
            try:
                tr = simulate(h, stim, obs)
            finally:
                h.top = top
        else:
            tr = simulate(h, stim, obs)
        traces.append([[row.get(id(s)) for s in obs] for row in tr])
    return traces[0] != traces[1]


def replay(v):
    if v["cfg"].get("fam") == "api":
        x, y = _api_twin(v["cfg"]["cfg"])
        return x != y
    if v["cfg"].get("shadow"):
        from .c19_shadow import replay_shadow
        return replay_shadow(v)
    item = v["cfg"]
    q = v["query"]
    if q == "different-hardware" and v.get("stimulus"):
        return _replay_miter(item, v["stimulus"], v.get("which", "second"))
    class O:
        violations = []
        extra = {}
        skipped = None
    from ..bmc import Stats
    o = O()
    o.violations = []
    check(item, o, Stats())
    return any(x["key"] == v["key"] for x in o.violations)
