"""C01 - the memory map tells the truth about the hardware, end to end.

E1: whole hierarchies (wishbone.Decoder over WishboneSRAM and WishboneCSRBridge over nested
csr.Decoder over csr.Multiplexer / csr.Bridge / csr.EventMonitor / gpio.Peripheral) are flattened
into one netlist.  The oracle is the ROOT memory map: all_resources() (ranges, widths) and
decode_address(); the root address is symbolic over the whole address space.
"""
import random

import z3
from amaranth import Module

from amaranth_soc import csr, event, gpio, wishbone
from amaranth_soc.csr.wishbone import WishboneCSRBridge
from amaranth_soc.wishbone.sram import WishboneSRAM
from amaranth_soc.memory import MemoryMap

from . import mux as M
from ..bmc import Harness, Ports, flat_ports, is1, bv, zext, in_range, slice_zext, raw
from ..e1 import Q, run_queries, replay as _replay

PROPERTY = "C01"
LEVEL = "model_checking"
META = {
    "engine": "E1 nir2smt on flattened hierarchies; free-state windows for CSR roots, reset-rooted single transfer "
              "for Wishbone roots",
    "encoded": ["wishbone.bus.Decoder.elaborate", "csr.wishbone.WishboneCSRBridge.elaborate", "csr.bus.Decoder.elaborate",
                "csr.bus.Multiplexer.elaborate", "csr.reg.Bridge.elaborate", "wishbone.sram.WishboneSRAM.elaborate",
                "csr.event.EventMonitor.elaborate", "gpio.Peripheral.elaborate", "memory.MemoryMap.add_window",
                "memory.MemoryMap.window_patterns", "memory.MemoryMap.all_resources", "memory.MemoryMap.decode_address"],
    "also": "zero-width leaf registers; registers added to a map after its multiplexer object exists; decoders whose windows are all explicit and added from the top address down; finding D4's unbalanceable layout behind a decoder; a warm-up instance elaborated first; partly built decoders inspected and elaborated between add() calls; a 10-bit register file with registers above address 256; inventory: every register / memory built is listed by the root map",
    "bounds": "CSR roots: csr.Decoder (addr width 5-8, data width 8/16, alignment 0-4) over 1-3 windows, each a stub-"
              "register multiplexer (1-3 registers, unaligned / padded), a register bridge, an event monitor (1-24 "
              "events), a GPIO peripheral or a nested decoder (depth <= 3); named/anonymous, implicit / explicit "
              "window-size-aligned addresses, align_to, seeded orders.  Wishbone roots: wishbone.Decoder (data width "
              "16/32, granularity 8/16) over 0-2 SRAMs and a WishboneCSRBridge over such a CSR tree; one transfer with "
              "symbolic adr/sel/we/dat_w held until acknowledged, from reset; and two such transfers back to back (the "
              "second presented in the cycle after the first acknowledge, strobe held through the acknowledge cycle)",
    "outside": "depth > 3, more than 3 windows per decoder, data width 64, Wishbone interfaces with clamped address "
               "width, sparse / finer-granularity windows (C07's excluded domain), explicit window addresses that are "
               "not multiples of the window size",
    "assumptions": ["an unassigned CSR address INSIDE a Wishbone-CSR bridge window is acknowledged by the bridge (C10 "
                    "requires it) with zero data and no leaf strobe; 'never acknowledged' applies to addresses outside "
                    "every Wishbone window", "Conf(R) as in C04 for chunk-offset windows"],
}


# ---------------------------------------------------------------------------------------------------
# topology description -> objects
# ---------------------------------------------------------------------------------------------------
def _leaf(spec, dw, top, path):
    """Returns (bus, [stub registers]) and registers submodules on `top`."""
    k = spec["k"]
    if k == "mux":
        cfg = {"aw": spec["aw"], "dw": dw, "align": spec.get("align", 0), "regs": spec["regs"]}
        late = 1 if (spec.get("late") and len(spec["regs"]) > 1) else 0
        mm, regs = M.build_map(cfg, hold_back=late)
        mx = csr.Multiplexer(mm, shadow_overlaps=spec.get("ov"))
        if late:
            M.build_map(cfg, mm=mm, regs=regs, start=len(spec["regs"]) - late)
        top.submodules["_".join(path)] = mx
        _BUILT.extend(regs)
        return mx.bus, regs
    if k == "bridge":
        class Reg(csr.Register, access="rw"):
            def __init__(self, w):
                super().__init__({"f": csr.Field(csr.action.RW, w)})
        b = csr.Builder(addr_width=spec["aw"], data_width=dw)
        for i, w in enumerate(spec["widths"]):
            b.add(f"reg{i}", Reg(w))
        br = csr.Bridge(b.as_memory_map())
        top.submodules["_".join(path)] = br
        _BUILT.extend(i.resource for i in br.bus.memory_map.all_resources())
        return br.bus, []
    if k == "evmon":
        srcs = [event.Source(trigger=t, path=(f"{'_'.join(path)}_s{i}",)) for i, t in enumerate(spec["trg"])]
        em = event.EventMap()
        for s in srcs:
            em.add(s)
        mon = csr.EventMonitor(em, data_width=dw, alignment=spec.get("align", 0))
        top.submodules["_".join(path)] = mon
        _BUILT.extend(i.resource for i in mon.bus.memory_map.all_resources())
        return mon.bus, []
    if k == "gpio":
        g = gpio.Peripheral(pin_count=spec["pins"], addr_width=spec["aw"], data_width=dw, input_stages=1)
        top.submodules["_".join(path)] = g
        _BUILT.extend(i.resource for i in g.bus.memory_map.all_resources())
        return g.bus, []
    if k == "dec":
        dec = csr.Decoder(addr_width=spec["aw"], data_width=dw, alignment=spec.get("align", 0))
        stubs = []
        for i, w in enumerate(spec["wins"]):
            bus, st = _leaf(w["node"], dw, top, path + (f"w{i}",))
            stubs += st
            if w.get("align_to") is not None:
                dec.align_to(w["align_to"])
            dec.add(bus, name=((f"n{i}",) if w.get("named") else None), addr=w.get("addr"))
            _inspect(dec)
        top.submodules["_".join(path)] = dec
        return dec.bus, stubs
    raise ValueError(k)


_INSPECT = [False]
_BUILT = []        # every register the leaf components of the hierarchy under construction contain (their OWN maps)


def _inspect(dec):
    """read-only use of a partly built decoder between two add() calls: print its address map, look something up,
    elaborate it (a partial system is simulated) - none of which may change what is built in the end"""
    if not _INSPECT[0]:
        return
    from amaranth.hdl import Fragment
    mm = dec.bus.memory_map
    list(mm.window_patterns())
    list(mm.windows())
    list(mm.all_resources())
    # (a driver probing which of a set of fixed addresses are occupied yet: up to 64 addresses spread over the space)
    span = 1 << mm.addr_width
    for a in range(0, span, max(1, span // 64)):
        mm.decode_address(a)
    Fragment.get(dec, None)


def _build(cfg):
    _INSPECT[0] = bool(cfg.get("inspect"))
    del _BUILT[:]
    top = Module()
    if cfg["root"] == "csr":
        bus, stubs = _leaf(cfg["tree"], cfg["dw"], top, ("root",))
        return top, bus, stubs, None
    # wishbone root
    gran, dw = cfg["gran"], cfg["dw"]
    dec = wishbone.Decoder(addr_width=cfg["aw"], data_width=dw, granularity=gran, alignment=cfg.get("align", 0))
    stubs = []
    srams = []
    for i, w in enumerate(cfg["wins"]):
        if w["k"] == "sram":
            s = WishboneSRAM(size=w["size"], data_width=dw, granularity=gran, writable=w.get("writable", True),
                             init=[(0x1111 * (r + 1 + i)) & ((1 << dw) - 1) for r in range(w["size"] * gran // dw)])
            top.submodules[f"sram{i}"] = s
            srams.append((f"sram{i}", s))
            sub = s.wb_bus
        else:
            cbus, st = _leaf(w["tree"], gran, top, (f"c{i}",))
            stubs += st
            br = WishboneCSRBridge(cbus, data_width=dw)
            top.submodules[f"wbcsr{i}"] = br
            sub = br.wb_bus
        if w.get("align_to") is not None:
            dec.align_to(w["align_to"])
        dec.add(sub, name=((f"n{i}",) if w.get("named") else None), addr=w.get("addr"))
        _inspect(dec)
    top.submodules.wbdec = dec
    return top, dec.bus, stubs, srams


def maker(cfg):
    def make():
        top, bus, stubs, srams = _build(cfg)
        ports = Ports()
        for path, member, s in bus.signature.flatten(bus):
            s = raw(s)
            ports.append(s)
        from amaranth.lib.wiring import In
        # the root bus is the `bus` member (In) of the root component: the environment drives what an initiator drives
        names_env = {"addr", "r_stb", "w_stb", "w_data", "adr", "dat_w", "sel", "cyc", "stb", "we", "lock", "cti", "bte"}
        for path, member, s in bus.signature.flatten(bus):
            if path[-1] in names_env:
                ports.env.add(id(raw(s)))
        ports = ports + (flat_ports(*stubs) if stubs else Ports())
        mm = bus.memory_map
        leaves = []
        for info in mm.all_resources():
            r = info.resource
            if hasattr(r, "element"):
                leaves.append((r, info.start, info.end, info.width))
                # make the element signals of non-stub registers observable
                for path, member, s in r.signature.flatten(r):
                    s = raw(s)
                    if not any(s is p for p in ports):
                        ports.append(s)
        mems = []
        if srams:
            for name, s in srams:
                md = list(s.wb_bus.memory_map.resources())[0][0].data
                mems.append((md, name))
                for path, member, sg in s.wb_bus.signature.flatten(s.wb_bus):
                    sg = raw(sg)
                    if not any(sg is p for p in ports):
                        ports.append(sg)
        return Harness(top, ports, bus=bus, mm=mm, leaves=leaves, stubs=stubs, srams=srams or [], mems=mems, built=list(_BUILT))
    return make


# ---------------------------------------------------------------------------------------------------
# configuration family
# ---------------------------------------------------------------------------------------------------
def _rand_leaf(rnd, dw, depth, tier):
    kinds = ["mux", "mux", "mux", "bridge", "evmon", "gpio"] + (["dec"] if depth < 2 else [])
    k = rnd.choice(kinds)
    if k == "mux":
        aw = rnd.randint(2, 4)
        regs = []
        for i in range(rnd.randint(1, 3)):
            r = {"w": rnd.choice([0, 1, dw, dw + 1, 2 * dw, 2 * dw + 3, 3 * dw]), "acc": rnd.choice(["r", "w", "rw", "rw"])}
            m = rnd.choice(["imp", "imp", "exp", "pad"])
            if m == "exp":
                r["addr"] = rnd.randrange(0, 1 << aw)
            elif m == "pad":
                r["pad"] = 1
            regs.append(r)
        return {"k": "mux", "aw": aw, "align": rnd.choice([0, 0, 1]), "regs": regs, "ov": rnd.choice([None, None, 0, 1]),
                "late": rnd.random() < 0.25}
    if k == "bridge":
        return {"k": "bridge", "aw": rnd.randint(2, 4), "widths": [rnd.choice([0, 1, dw, dw + 4, 3 * dw]) for _ in range(rnd.randint(1, 3))]}
    if k == "evmon":
        n = rnd.choice([1, 3, dw, dw + 1, 2 * dw + 1, 2 * dw + 4])
        return {"k": "evmon", "trg": [rnd.choice(["level", "rise", "fall"]) for _ in range(n)], "align": rnd.choice([0, 0, 1, 2])}
    if k == "gpio":
        p = rnd.choice([1, 3, 5])
        return {"k": "gpio", "pins": p, "aw": 4 if dw == 8 else 3}
    return _rand_dec(rnd, dw, depth + 1, tier, rnd.randint(4, 6))


def _rand_dec(rnd, dw, depth, tier, aw):
    wins = []
    for i in range(rnd.randint(1, 3)):
        w = {"node": _rand_leaf(rnd, dw, depth, tier), "named": rnd.random() < 0.5}
        m = rnd.choice(["imp", "imp", "imp", "align_to", "exp"])
        if m == "align_to":
            w["align_to"] = rnd.randint(0, aw - 1)
        elif m == "exp":
            w["addr"] = "auto"
        wins.append(w)
    node = {"k": "dec", "aw": aw, "align": rnd.choice([0, 0, 0, 1, 3, 4]), "wins": wins}
    if rnd.random() < 0.3:
        node["desc"] = True        # all windows at explicit addresses, added from the highest address down
    return node


def _sub_aw(node, dw):
    """address width of the bus a node provides (needed to pick window-size-aligned explicit addresses)."""
    if node["k"] == "evmon":
        from amaranth.utils import ceil_log2
        n = len(node["trg"])
        return 1 + max(ceil_log2((n + dw - 1) // dw), node.get("align", 0))
    return node["aw"]


def _fix_explicit(node, dw, rnd):
    if node["k"] != "dec":
        return
    if node.get("desc"):
        for w in node["wins"]:
            _fix_explicit(w["node"], dw, rnd)
        sizes = [1 << max(_sub_aw(w["node"], dw), node.get("align", 0)) for w in node["wins"]]
        big = max(sizes)
        if big * len(sizes) <= (1 << node["aw"]):
            for i, w in enumerate(node["wins"]):
                w.pop("align_to", None)
                w["addr"] = big * (len(sizes) - 1 - i)      # descending
        return
    for w in node["wins"]:
        _fix_explicit(w["node"], dw, rnd)
        if w.get("addr") == "auto":
            size = 1 << max(_sub_aw(w["node"], dw), node.get("align", 0))
            slots = (1 << node["aw"]) // size
            w["addr"] = rnd.randrange(0, slots) * size if slots > 0 else None


def configs(tier, seed):
    rnd = random.Random(seed + 101)
    out = []
    # finding D4's layout (refused with ValueError since the fix) behind a decoder: it must stay refused or work
    d4 = {"k": "mux", "aw": 3, "align": 0, "ov": 0, "regs": [{"w": 8, "acc": "rw", "addr": 0}, {"w": 16, "acc": "rw", "addr": 1},
                                                             {"w": 8, "acc": "rw", "addr": 4}, {"w": 24, "acc": "rw", "addr": 5}]}
    want = 90 if tier == "quick" else 1500
    tries = 0
    while len(out) < want and tries < want * 30:
        tries += 1
        if rnd.random() < 0.7:
            dw = rnd.choice([8, 8, 16])
            tree = _rand_dec(rnd, dw, 0, tier, rnd.randint(5, 8))
            _fix_explicit(tree, dw, rnd)
            cfg = {"root": "csr", "dw": dw, "tree": tree}
        else:
            gran = rnd.choice([8, 8, 16])
            dw = rnd.choice([d for d in (16, 32) if d >= gran])
            aw = rnd.randint(4, 7)
            wins = []
            for i in range(rnd.randint(1, 3)):
                if rnd.random() < 0.45:
                    wins.append({"k": "sram", "size": rnd.choice([4, 8, 16]) * (dw // gran) // (dw // gran),
                                 "writable": rnd.random() < 0.8, "named": rnd.random() < 0.5})
                else:
                    tree = _rand_dec(rnd, gran, 1, tier, rnd.randint(4, 6)) if rnd.random() < 0.6 else _rand_leaf(rnd, gran, 2, tier)
                    _fix_explicit(tree, gran, rnd)
                    wins.append({"k": "csr", "tree": tree, "named": rnd.random() < 0.5})
                if rnd.random() < 0.2:
                    wins[-1]["align_to"] = rnd.randint(0, aw)
            cfg = {"root": "wb", "dw": dw, "gran": gran, "aw": aw, "align": rnd.choice([0, 0, 1, 2]), "wins": wins}
        try:
            top, bus, stubs, srams = _build(cfg)
            from amaranth.hdl import Fragment
            Fragment.get(top, None)        # layouts the multiplexer refuses are not part of the family
        except ValueError:
            continue
        if len(out) % 3 == 1:
            cfg["inspect"] = True          # the partly built decoders are inspected / elaborated between the add() calls
        out.append(cfg)
    # a large register file (local addresses far above 256, up to the last one) next to a small one
    big = {"k": "mux", "aw": 10, "align": 0, "ov": None,
           "regs": [{"w": 16, "acc": "rw", "addr": 0x101}, {"w": 8, "acc": "r", "addr": 0x200}, {"w": 8, "acc": "rw", "addr": 0x3ff}]}
    out.append({"root": "csr", "dw": 8, "tree": {"k": "dec", "aw": 12, "align": 0,
                                                 "wins": [{"node": {"k": "bridge", "aw": 3, "widths": [8, 12]}, "named": True},
                                                          {"node": big, "named": False}]}})
    out.append({"root": "wb", "dw": 32, "gran": 8, "aw": 10, "align": 0,
                "wins": [{"k": "csr", "tree": big, "named": True}, {"k": "sram", "size": 16, "writable": True, "named": False}]})
    # a CSR space SMALLER than one Wishbone word behind a bridge (refused on the pinned tree: it must stay refused, or
    # the bytes of the word that no register occupies must stay unassigned AND silent)
    for dw_, leaf in ((32, {"k": "evmon", "align": 0, "trg": ["rise", "level"]}), (16, {"k": "bridge", "aw": 1, "widths": [8]}),
                      (32, {"k": "bridge", "aw": 1, "widths": [8, 8]})):
        cfg = {"root": "wb", "dw": dw_, "gran": 8, "aw": 4, "align": 0,
               "wins": [{"k": "csr", "tree": leaf, "named": True}, {"k": "sram", "size": 8, "writable": True, "named": False}]}
        try:
            top, bus, stubs, srams = _build(cfg)
            from amaranth.hdl import Fragment
            Fragment.get(top, None)
            out.append(cfg)
        except ValueError:
            pass
    for ov in (0, 1):
        cfg = {"root": "csr", "dw": 8, "tree": {"k": "dec", "aw": 6, "align": 0,
                                                "wins": [{"node": dict(d4, ov=ov), "named": True},
                                                         {"node": {"k": "bridge", "aw": 3, "widths": [8]}, "named": False}]}}
        try:
            top, bus, stubs, srams = _build(cfg)
            from amaranth.hdl import Fragment
            Fragment.get(top, None)
            out.append(cfg)
        except ValueError:
            pass
    return out


# ---------------------------------------------------------------------------------------------------
# queries
# ---------------------------------------------------------------------------------------------------
def _mapped(h, A, W):
    alts = [z3.And(z3.UGE(A, bv(W, s)), z3.ULT(A, bv(W, e))) for r, s, e, w in h.leaves]
    return z3.Or(*alts) if alts else z3.BoolVal(False)


def csr_queries(h, cfg):
    bus = h.bus
    W = bus.addr_width + 2
    dw = cfg["dw"]
    qs = []

    def strobes(h, fr):
        f0, f1 = fr
        bus = h.bus
        A = zext(f0.sig(bus.addr), W)
        rs, ws = is1(f0.sig(bus.r_stb)), is1(f0.sig(bus.w_stb))
        bad = []
        for r, s, e, w in h.leaves:
            el = r.element
            if el.access.readable():
                bad.append(is1(f0.sig(el.r_stb)) != z3.And(rs, A == bv(W, s)))
            if el.access.writable():
                bad.append(is1(f1.sig(el.w_stb)) != z3.And(ws, A == bv(W, e - 1)))
        # unassigned (or non-readable) address: read data is zero one cycle later
        readable = z3.Or(*[z3.And(z3.UGE(A, bv(W, s)), z3.ULT(A, bv(W, e))) for r, s, e, w in h.leaves
                           if r.element.access.readable()]) if h.leaves else z3.BoolVal(False)
        bad.append(z3.And(z3.Not(z3.And(rs, readable)), f1.sig(bus.r_data) != 0))
        return [], z3.Or(*bad)

    def twin(h, fr):
        return [], z3.Or(*[is1(fr[1].sig(r.element.w_stb)) for r, s, e, w in h.leaves if r.element.access.writable()] +
                         [is1(fr[0].sig(r.element.r_stb)) for r, s, e, w in h.leaves if r.element.access.readable()])
    qs.append(Q("leaf-strobes-iff-map-says-so", 2, strobes, twin=twin if h.leaves else None))

    # chunk offsets: C04/C05-style transaction windows driven from the ROOT bus at ROOT addresses
    for idx, (R, start, end, width_) in enumerate(h.leaves):
        n = end - start
        if n > 4:
            continue
        el = R.element

        def conf(h, frames, start=start, end=end):
            bus = h.bus
            cons = []
            seen_r = seen_w = z3.BoolVal(False)
            lr = lw = bv(W, 0)
            for f in frames:
                A = zext(f.sig(bus.addr), W)
                rs, ws = is1(f.sig(bus.r_stb)), is1(f.sig(bus.w_stb))
                inR = z3.And(z3.UGE(A, bv(W, start)), z3.ULT(A, bv(W, end)))
                cons.append(z3.Implies(z3.Or(rs, ws), z3.Or(inR, z3.Not(_mapped(h, A, W)))))
                cons.append(z3.Implies(z3.And(rs, inR, seen_r), z3.UGT(A, lr)))
                cons.append(z3.Implies(z3.And(ws, inR, seen_w), z3.UGT(A, lw)))
                lr = z3.If(z3.And(rs, inR), A, lr)
                lw = z3.If(z3.And(ws, inR), A, lw)
                seen_r = z3.Or(seen_r, z3.And(rs, inR))
                seen_w = z3.Or(seen_w, z3.And(ws, inR))
            return cons

        if el.access.readable():
            def snapshot(h, fr, idx=idx, start=start, end=end, n=n, conf=conf):
                R = h.leaves[idx][0]
                bus = h.bus
                f0 = fr[0]
                assume = [is1(f0.sig(bus.r_stb)), zext(f0.sig(bus.addr), W) == bv(W, start)] + conf(h, fr[:-1])
                snap = f0.sig(R.element.r_data)
                bad = []
                for t in range(len(fr) - 1):
                    A = zext(fr[t].sig(bus.addr), W)
                    rs = is1(fr[t].sig(bus.r_stb))
                    for j in range(n):
                        exp = slice_zext(snap, j * dw, (j + 1) * dw, R.element.width, dw)
                        bad.append(z3.And(rs, A == bv(W, start + j), fr[t + 1].sig(bus.r_data) != exp))
                return assume, z3.Or(*bad)
            qs.append(Q(f"read-chunks-at-map-offsets-{start}", n + 2, snapshot, max_prefix=6))
        if el.access.writable() and el.width:
            def wdata(h, fr, idx=idx, start=start, end=end, n=n, conf=conf):
                R = h.leaves[idx][0]
                bus = h.bus
                assume = conf(h, fr[:-1])
                Dv = [bv(dw, 0)] * n
                have = [z3.BoolVal(False)] * n
                bad = []
                for t in range(len(fr) - 1):
                    A = zext(fr[t].sig(bus.addr), W)
                    ws = is1(fr[t].sig(bus.w_stb))
                    for j in range(n):
                        hit = z3.And(ws, A == bv(W, start + j))
                        Dv[j] = z3.If(hit, fr[t].sig(bus.w_data), Dv[j])
                        have[j] = z3.Or(have[j], hit)
                    cat = Dv[0] if n == 1 else z3.Concat(*reversed(Dv))
                    bad.append(z3.And(ws, A == bv(W, end - 1), *have,
                                      fr[t + 1].sig(R.element.w_data) != z3.Extract(R.element.width - 1, 0, cat)))
                return assume, z3.Or(*bad)
            qs.append(Q(f"write-chunks-at-map-offsets-{start}", n + 1, wdata, max_prefix=6))
    return qs


def wb_queries(h, cfg):
    bus = h.bus
    dw, gran = cfg["dw"], cfg["gran"]
    r = dw // gran
    lg = r.bit_length() - 1
    T = r + 4
    GW = bus.addr_width + lg + 2       # width for granule addresses

    def windows(h):
        return [(s, e) for w, n, (s, e, ratio) in h.mm.windows()]

    def held(h, fr):
        """one transfer from reset: the request is presented in frame 0 and held until acknowledged."""
        bus = h.bus
        a = []
        f0 = fr[0]
        a += [is1(f0.sig(bus.cyc)), is1(f0.sig(bus.stb))]
        done = z3.BoolVal(False)
        for t in range(1, len(fr)):
            done = z3.Or(done, is1(fr[t - 1].sig(bus.ack)))
            f = fr[t]
            same = [f.sig(bus.cyc) == 1, f.sig(bus.stb) == 1, f.sig(bus.adr) == f0.sig(bus.adr),
                    f.sig(bus.we) == f0.sig(bus.we), f.sig(bus.sel) == f0.sig(bus.sel), f.sig(bus.dat_w) == f0.sig(bus.dat_w)]
            idle = [f.sig(bus.cyc) == 0, f.sig(bus.stb) == 0]
            a.append(z3.If(done, z3.And(*idle), z3.And(*same)))
        return a

    def transfer(h, fr):
        bus = h.bus
        a = held(h, fr)
        f0 = fr[0]
        adr = zext(f0.sig(bus.adr), GW)
        we = is1(f0.sig(bus.we))
        sel = f0.sig(bus.sel)
        base = adr * bv(GW, r)                      # first granule address of the addressed word

        def selected(g):
            """granule address g (python int) is selected by this transfer"""
            alts = [z3.And(base + bv(GW, k) == bv(GW, g), z3.Extract(k, k, sel) == 1) for k in range(r)]
            return z3.Or(*alts)
        bad = []
        for R, s, e, w in h.leaves:
            el = R.element
            if el.access.readable():
                n_r = sum([z3.If(is1(f.sig(el.r_stb)), bv(5, 1), bv(5, 0)) for f in fr], bv(5, 0))
                bad.append(n_r != z3.If(z3.And(selected(s), z3.Not(we)), bv(5, 1), bv(5, 0)))
            if el.access.writable():
                n_w = sum([z3.If(is1(f.sig(el.w_stb)), bv(5, 1), bv(5, 0)) for f in fr], bv(5, 0))
                bad.append(n_w != z3.If(z3.And(selected(e - 1), we), bv(5, 1), bv(5, 0)))
                # fully covered write: the register receives the concatenation of its granules' lanes
                if el.width and (e - s) <= r:
                    for k0 in range(r - (e - s) + 1):
                        covered = z3.And(we, base + bv(GW, k0) == bv(GW, s),
                                         *[z3.Extract(k0 + j, k0 + j, sel) == 1 for j in range(e - s)])
                        lanes = [z3.Extract((k0 + j + 1) * gran - 1, (k0 + j) * gran, f0.sig(bus.dat_w)) for j in range(e - s)]
                        cat = lanes[0] if len(lanes) == 1 else z3.Concat(*reversed(lanes))
                        exp = z3.Extract(el.width - 1, 0, cat)
                        for t in range(1, len(fr)):
                            bad.append(z3.And(covered, is1(fr[t].sig(el.w_stb)), fr[t].sig(el.w_data) != exp))
        # addresses outside every window are never acknowledged
        inwin = z3.Or(*[z3.And(z3.UGE(base, bv(GW, s)), z3.ULT(base, bv(GW, e))) for s, e in windows(h)]) \
            if windows(h) else z3.BoolVal(False)
        anyack = z3.Or(*[is1(f.sig(bus.ack)) for f in fr])
        bad.append(z3.And(z3.Not(inwin), anyack))
        return a, z3.Or(*bad)

    def twin(h, fr):
        a, _ = transfer(h, fr)
        return a, z3.Or(*[is1(f.sig(h.bus.ack)) for f in fr])
    def two_transfers(h, fr):
        """transfer A from reset, held until acknowledged (or for the whole first half when nobody answers);
        transfer B, with fresh symbolic adr/sel/we/dat_w, is presented in the very next cycle and held likewise.
        Every leaf strobes exactly as often as A and B together select it; B is acknowledged iff B is in a window."""
        bus = h.bus
        f0 = fr[0]
        half = len(fr) // 2
        a = [is1(f0.sig(bus.cyc)), is1(f0.sig(bus.stb))]
        fields = ("adr", "we", "sel", "dat_w")
        val = lambda f, n: f.sig(getattr(bus, n))
        A = {n: val(f0, n) for n in fields}
        B = {n: None for n in fields}
        # phase: 0 = A pending, 1 = B pending, 2 = done
        phase = bv(2, 0)
        ackedA = z3.BoolVal(False)
        ackedB = z3.BoolVal(False)
        curB = {n: val(f0, n) for n in fields}
        startB = []
        for t in range(1, len(fr)):
            f = fr[t]
            ack_prev = is1(fr[t - 1].sig(bus.ack))
            # A ends when acknowledged, or at the half-way frame if nobody answers
            endA = z3.And(phase == 0, z3.Or(ack_prev, z3.BoolVal(t == half)))
            ackedA = z3.Or(ackedA, z3.And(phase == 0, ack_prev))
            endB = z3.And(phase == 1, ack_prev)
            ackedB = z3.Or(ackedB, endB)
            sB = endA
            startB.append(sB)
            req = z3.And(is1(f.sig(bus.cyc)), is1(f.sig(bus.stb)))
            holdA = z3.And(req, *[val(f, n) == A[n] for n in fields])
            holdB = z3.And(req, *[val(f, n) == curB[n] for n in fields])
            idle_ = z3.And(f.sig(bus.cyc) == 0, f.sig(bus.stb) == 0)
            a.append(z3.If(sB, req, z3.If(endB, idle_, z3.If(phase == 0, holdA, z3.If(phase == 1, holdB, idle_)))))
            curB = {n: z3.If(sB, val(f, n), curB[n]) for n in fields}
            phase = z3.If(sB, bv(2, 1), z3.If(endB, bv(2, 2), phase))
        Bv = curB

        def selected(req, g):
            base = zext(req["adr"], GW) * bv(GW, r)
            return z3.Or(*[z3.And(base + bv(GW, k) == bv(GW, g), z3.Extract(k, k, req["sel"]) == 1) for k in range(r)])
        startedB = z3.Or(*startB)
        bad = []
        one, zero = bv(5, 1), bv(5, 0)
        for R, s, e, w in h.leaves:
            el = R.element
            if el.access.readable():
                n_r = sum([z3.If(is1(f.sig(el.r_stb)), one, zero) for f in fr], zero)
                exp = z3.If(z3.And(selected(A, s), A["we"] == 0), one, zero) + \
                    z3.If(z3.And(startedB, selected(Bv, s), Bv["we"] == 0), one, zero)
                bad.append(n_r != exp)
            if el.access.writable():
                n_w = sum([z3.If(is1(f.sig(el.w_stb)), one, zero) for f in fr], zero)
                exp = z3.If(z3.And(selected(A, e - 1), A["we"] == 1), one, zero) + \
                    z3.If(z3.And(startedB, selected(Bv, e - 1), Bv["we"] == 1), one, zero)
                bad.append(n_w != exp)
        baseB = zext(Bv["adr"], GW) * bv(GW, r)
        inwinB = z3.Or(*[z3.And(z3.UGE(baseB, bv(GW, s)), z3.ULT(baseB, bv(GW, e))) for s, e in windows(h)]) \
            if windows(h) else z3.BoolVal(False)
        bad.append(z3.And(startedB, z3.Not(inwinB), ackedB))
        return a, z3.Or(*bad), z3.And(ackedA, ackedB)

    def two_build(h, fr):
        a, b, _ = two_transfers(h, fr)
        return a, b

    def two_twin(h, fr):
        a, _, both = two_transfers(h, fr)
        return a, both
    qs = [Q("one-transfer-reaches-exactly-the-mapped-leaves", T, transfer, init="reset", twin=twin if windows(h) else None),
          Q("two-back-to-back-transfers", 2 * (r + 3) + 1, two_build, init="reset",
            twin=two_twin if any(w_[0] != w_[1] for w_ in windows(h)) else None)]

    def outside(h, fr):
        # (the acknowledge half of "unassigned addresses are never acknowledged" needs a protocol-abiding
        #  transfer and is part of the reset-rooted transfer query; here: no bus cycle, no strobe, any state)
        bus = h.bus
        f = fr[0]
        adr = zext(f.sig(bus.adr), GW)
        base = adr * bv(GW, r)
        inwin = z3.Or(*[z3.And(z3.UGE(base, bv(GW, s)), z3.ULT(base, bv(GW, e))) for s, e in windows(h)]) \
            if windows(h) else z3.BoolVal(False)
        subs_cyc = []
        for name, s in h.srams:
            subs_cyc.append(is1(f.sig(s.wb_bus.cyc)))
        leaf_stb = [is1(f.sig(R.element.r_stb)) for R, s, e, w in h.leaves if R.element.access.readable()]
        return [z3.Not(inwin)], z3.Or(*subs_cyc, *leaf_stb) if (subs_cyc or leaf_stb) else z3.BoolVal(False)
    qs.append(Q("outside-every-window-nothing-happens", 1, outside))

    def no_request(h, fr):
        # cyc without stb, stb without cyc, or neither (for any number of cycles, in any state): no register is read in
        # that cycle and none is written in the next
        bus = h.bus
        f0, f1 = fr
        rs = [is1(f0.sig(R.element.r_stb)) for R, s, e, w in h.leaves if R.element.access.readable()]
        ws = [is1(f1.sig(R.element.w_stb)) for R, s, e, w in h.leaves if R.element.access.writable()]
        return [z3.Not(z3.And(is1(f0.sig(bus.cyc)), is1(f0.sig(bus.stb))))], \
            z3.Or(*rs, *ws) if (rs or ws) else z3.BoolVal(False)
    qs.append(Q("without-a-request-no-register-is-accessed", 2, no_request))

    # SRAM words: a write transfer changes exactly the selected granules of the addressed row
    for name, sram in h.srams:
        info = [i for i in h.mm.all_resources() if i.resource is list(sram.wb_bus.memory_map.resources())[0][0]][0]
        md = info.resource.data
        depth = (info.end - info.start) // r

        def sram_q(h, fr, name=name, depth=depth, start=info.start):
            sram = dict(h.srams)[name]
            bus = h.bus
            md = list(sram.wb_bus.memory_map.resources())[0][0].data
            a = held(h, fr)
            f0 = fr[0]
            adr = zext(f0.sig(bus.adr), GW)
            we = is1(f0.sig(bus.we))
            sel, dat = f0.sig(bus.sel), f0.sig(bus.dat_w)
            bad = []
            for row in range(depth):
                hit = adr == bv(GW, start // r + row)
                old = fr[0].mem_row(md, row)
                lanes = []
                for l in range(r):
                    take = z3.And(hit, we, z3.BoolVal(bool(sram.writable)), z3.Extract(l, l, sel) == 1)
                    lanes.append(z3.If(take, z3.Extract((l + 1) * gran - 1, l * gran, dat),
                                       z3.Extract((l + 1) * gran - 1, l * gran, old)))
                exp = lanes[0] if r == 1 else z3.Concat(*reversed(lanes))
                bad.append(fr[-1].mem_row(md, row) != exp)
                # read: data returned with the acknowledge
                bad.append(z3.And(hit, z3.Not(we), is1(fr[1].sig(bus.ack)), fr[1].sig(bus.dat_r) != old))
                bad.append(z3.And(hit, z3.Not(is1(fr[1].sig(bus.ack)))))
            return a, z3.Or(*bad)
        qs.append(Q(f"sram-{name}-word-at-map-address", 4, sram_q, init="reset"))
    return qs


def queries(h, cfg):
    return csr_queries(h, cfg) if cfg["root"] == "csr" else wb_queries(h, cfg)


def _missing(cfg):
    """registers (and SRAMs) that exist in the design but that the ROOT memory map does not list: the map would be
    silent about hardware that responds"""
    h = maker(cfg)()
    listed = {id(i.resource) for i in h.mm.all_resources()}
    miss = [type(r).__name__ for r in h.built if id(r) not in listed]
    for name, s in h.srams:
        for res, _, _ in s.wb_bus.memory_map.resources():
            if id(res) not in listed:
                miss.append(f"SRAM {name}")
    return miss


def _decode_disagrees(cfg):
    """the root map's decode_address() against its own all_resources(): first and last address of every reported range
    decode to that resource, the address before the first and after the last range (if free) to nothing - also when
    addresses were looked up while the hierarchy was still being built (the `inspect` histories)"""
    h = maker(cfg)()
    infos = list(h.mm.all_resources())
    bad = []
    for i in infos:
        for a in (i.start, i.end - 1):
            if h.mm.decode_address(a) is not i.resource:
                bad.append(f"{a:#x} does not decode to {'/'.join(str(p) for n in i.path for p in n)}")
    covered = lambda a: any(i.start <= a < i.end for i in infos)
    span = 1 << h.mm.addr_width
    for a in {0, span - 1} | {i.end for i in infos if i.end < span} | {i.start - 1 for i in infos if i.start > 0}:
        if not covered(a) and h.mm.decode_address(a) is not None:
            bad.append(f"free address {a:#x} decodes to a resource")
    return bad


def check(cfg, out, stats):
    import sys
    try:
        miss = _missing(cfg)
        dis = [] if miss else _decode_disagrees(cfg)
    except (ValueError, TypeError):
        miss, dis = [], []          # (a refused configuration is reported by run_queries)
    if dis:
        from ..bmc import mark_violation
        from ..e1 import cfg_key
        mark_violation("decode-disagrees")
        out.violations.append({"key": f"decode-disagrees@{cfg_key(cfg)}",
                               "what": f"C01 the root memory map contradicts itself: {'; '.join(dis[:3])} ({cfg_key(cfg)})",
                               "query": "decode", "cfg": cfg, "stimulus": [], "prefix": 0, "k": 0, "detail": {}})
        return
    if miss:
        from ..bmc import mark_violation
        from ..e1 import cfg_key
        mark_violation("missing-from-root-map")
        out.violations.append({"key": f"missing-from-root-map@{cfg_key(cfg)}",
                               "what": f"C01 {len(miss)} register(s) / memories of the hierarchy are missing from the root memory "
                                       f"map ({', '.join(miss[:4])}) ({cfg_key(cfg)})", "query": "inventory", "cfg": cfg,
                               "stimulus": [], "prefix": 0, "k": 0, "detail": {}})
        return
    run_queries(sys.modules[__name__], cfg, out, stats, cosim_cycles=12)


def replay(v):
    import sys
    if v["query"] == "inventory":
        return bool(_missing(v["cfg"]))
    if v["query"] == "decode":
        return bool(_decode_disagrees(v["cfg"]))
    return _replay(sys.modules[__name__], v)
