"""C03 - resource lookup through windows is coherent in every direction.

E2: the real MemoryMap._translate / all_resources / find_resource / decode_address / add_window /
add_resource run on trees whose SHAPE is enumerated and whose PLACEMENTS (resource addresses and
sizes, window base addresses) and the decoded address are symbolic.  Oracle: closed-form
composition [b + s/r, b + e/r), width*r, path = window names ++ resource name, written
independently in the harness from the values the add_* calls returned.
"""
import itertools
import random

from amaranth.lib import wiring

import amaranth_soc.memory as memory
from amaranth_soc.memory import MemoryMap

from ..symex import SymInt, b_and, b_or, b_not, PathAbort
from ..e2 import run_harness, replay_concrete

PROPERTY = "C03"
LEVEL = "model_checking"
META = {
    "engine": "E2 symex",
    "encoded": ["memory.MemoryMap._translate", "memory.MemoryMap.all_resources", "memory.MemoryMap.find_resource",
                "memory.MemoryMap.decode_address", "memory.MemoryMap.add_window", "memory.MemoryMap.add_resource",
                "memory._RangeMap.get", "memory._RangeMap.insert", "memory.ResourceInfo.__init__"],
    "also": 'lookups, an abandoned all_resources() traversal and a stranger lookup after every add at every level; every direct child also mapped into an unrelated second root; multi-part window names with integer parts; internal errors of lookups are violations',
    "bounds": "tree shapes enumerated: depth <= 3, <= 3 items per map, named/anonymous windows, ratio-1 and sparse "
              "windows at any level, dense windows of ratio 2/4/8 over leaf maps; resource addresses/sizes and window "
              "bases symbolic (explicit or implicit), decoded address symbolic over the whole root space, lookups of "
              "every added object plus one never-added object",
    "outside": "deeper/wider trees; dense windows over non-leaf maps",
    "assumptions": ["isinstance/range/int rebound for amaranth_soc.memory"],
    "rule": "one evaluation = one solver query; distinct_nontrivial = feasible paths passing the preconditions",
}


class Res(wiring.Component):
    def __init__(self):
        super().__init__({})


class EmptyRes(Res):
    """a resource object that is FALSY (a container-like component with nothing in it) and that compares EQUAL to every
    other object of its class (value equality): still a distinct resource - the maps go by identity"""
    def __len__(self):
        return 0

    def __eq__(self, other):
        return type(other) is EmptyRes

    def __hash__(self):
        return 7


def M(aw, dw, al, *items):
    return {"aw": aw, "dw": dw, "al": al, "items": list(items)}


def R(mode="sym"):
    return {"t": "res", "mode": mode}        # mode: sym (explicit symbolic addr+size) / imp (implicit, symbolic size)


def W(child, name=True, sparse=None, mode="sym"):
    return {"t": "win", "named": name, "sparse": sparse, "child": child, "mode": mode}


def shapes(tier):
    s = []
    leaf32 = lambda *it: M(2, 32, 0, *it)
    s.append(M(4, 32, 0, R(), W(leaf32(R(), R("imp")))))
    s.append(M(4, 32, 0, W(leaf32(R()), name=False), R("imp")))
    s.append(M(4, 32, 0, R("imp"), W(M(3, 16, 1, R(), R("imp")), sparse=False)))                 # dense 2 after a register
    s.append(M(4, 32, 0, R(), W(M(4, 8, 2, R(), R("imp")), sparse=False, name=False)))             # dense 4
    s.append(M(3, 64, 0, R("imp"), W(M(5, 8, 3, R(), R("imp")), sparse=False, mode="imp")))        # dense 8
    s.append(M(4, 32, 0, W(M(2, 16, 0, R(), R("imp")), sparse=True), R()))                         # sparse
    s.append(M(5, 32, 0, W(M(3, 32, 0, W(M(2, 8, 0, R()), sparse=True), R("imp")), name=True), R()))   # sparse below ratio-1
    s.append(M(5, 32, 0, W(M(3, 16, 0, W(M(2, 8, 0, R()), sparse=True, name=False)), sparse=True), R("imp")))  # sparse chain
    s.append(M(5, 32, 0, W(M(4, 32, 0, W(M(3, 16, 1, R()), sparse=False), R("imp")), name=False), R()))  # dense below ratio-1
    s.append(M(5, 32, 1, R(), W(M(3, 32, 0, W(M(2, 32, 0, R()), mode="imp"), R("imp")), mode="imp")))  # depth 3
    # windows SMALLER than the parent's alignment granule: their range is padded, and the padding decodes to nothing
    s.append(M(5, 32, 3, R("imp"), W(M(2, 32, 0, R(), R("imp"))), R("imp")))                         # 4-address window, granule 8
    s.append(M(5, 32, 2, W(M(3, 8, 2, R(), R("imp")), sparse=False, mode="imp"), R("imp")))             # dense 4: 2 addresses, granule 4
    # a NAMED window below an ANONYMOUS one (and the other way round) inside the same map
    s.append(M(5, 32, 0, W(leaf32(R()), name=True), W(leaf32(R(), R("imp")), name=False), R("imp")))
    s.append(M(5, 32, 0, W(leaf32(R()), name=False), W(leaf32(R("imp")), name=True), W(leaf32(R()), name=False)))
    # dense windows over leaves that are MORE aligned than the ratio requires (alignment > log2(ratio))
    s.append(M(4, 32, 0, R("imp"), W(M(4, 8, 3, R(), R("imp")), sparse=False, name=False)))            # ratio 4, alignment 3
    s.append(M(4, 32, 0, W(M(3, 16, 2, R(), R("imp")), sparse=False), R("imp")))                       # ratio 2, alignment 2
    # very large address spaces (the arithmetic is width-agnostic; values above 2**53 do not survive a float)
    s.append(M(60, 32, 0, W(M(56, 32, 0, R(), R("imp"))), R("imp")))
    s.append(M(58, 32, 0, R("imp"), W(M(59, 8, 2, R(), R("imp")), sparse=False, mode="imp")))
    # the narrowest data widths there are: 1-bit maps, and a 1-bit map densely behind a 2-bit one
    s.append(M(4, 1, 0, R(), W(M(2, 1, 0, R(), R("imp")))))
    s.append(M(3, 2, 0, R("imp"), W(M(3, 1, 1, R(), R("imp")), sparse=False)))
    if tier == "thorough":
        s.append(M(6, 32, 4, W(M(3, 32, 2, W(M(1, 8, 0, R()), sparse=True, name=False), R("imp")), name=True), R("imp")))
        s.append(M(5, 32, 0, R(), W(leaf32(R(), R())), W(M(3, 16, 1, R()), sparse=False)))
        s.append(M(5, 32, 0, W(M(3, 16, 1, R(), R()), sparse=False), W(M(4, 8, 2, R()), sparse=False, name=False), R("imp")))
        s.append(M(6, 32, 0, W(M(4, 32, 0, W(M(2, 32, 0, R(), R("imp")), name=False), W(M(2, 8, 0, R()), sparse=True)), name=True), R()))
        s.append(M(4, 64, 0, W(M(5, 8, 3, R(), R(), R("imp")), sparse=False), R()))
        s.append(M(5, 16, 0, R(), R(), W(M(3, 8, 1, R(), R("imp")), sparse=False, mode="imp")))
        s.append(M(6, 32, 2, W(M(3, 32, 1, R(), W(M(1, 32, 0, R("imp")), mode="imp"))), R("imp"), R()))
    return s


def configs(tier, seed):
    return [{"shape": s} for s in shapes(tier)]


class _Stop(Exception):
    """an obligation has failed and the program cannot go on"""


def harness_for(cfg):
    shape = cfg["shape"]

    def h(E):
        ctr = [0]
        stranger = EmptyRes()          # never added, but EQUAL (==) to resources that were
        oracle = []        # (resource, start, end, width, path) in ROOT coordinates, filled bottom-up

        def build(spec):
            """Returns (map, [(res, s, e, width, path)]) in the coordinates of this map."""
            try:
                mm = MemoryMap(addr_width=spec["aw"], data_width=spec["dw"], alignment=spec["al"])
            except (ValueError, TypeError):
                E.prove(False, "a legal map geometry (positive widths, non-negative alignment) is refused")
                raise _Stop()
            local = []
            top = 1 << spec["aw"]

            def poke():
                # lookups interleaved with construction (queries are part of the history): every resource
                # added so far is found at its composed range, a stranger is not
                for r, s, e, w, path in local:
                    try:
                        f = mm.find_resource(r)
                    except KeyError:
                        E.prove(False, "find_resource does not find a resource that was added")
                        continue
                    except (TypeError, AssertionError):
                        E.prove(False, "find_resource() fails with an internal error on a legal tree")
                        continue
                    E.prove(b_and(f.start == s, f.end == e, f.width == w), "find_resource during construction")
                try:
                    mm.find_resource(stranger)
                    E.prove(False, "find_resource found an object that was never added")
                except KeyError:
                    pass
                # an abandoned traversal (linear search with early exit) is a query too
                it = mm.all_resources()
                try:
                    next(it, None)
                except (TypeError, AssertionError):
                    E.prove(False, "all_resources() fails with an internal error on a legal tree")
                del it
            poke()
            for it in spec["items"]:
                ctr[0] += 1
                n = ctr[0]
                if it["t"] == "res":
                    r = EmptyRes() if (n % 2 or n % 3 == 0) else Res()
                    addr = E.int(f"a{n}", 0, top) if it["mode"] == "sym" else None
                    size = E.int(f"z{n}", 0, top)
                    try:
                        s, e = mm.add_resource(r, name=(f"r{n}",), addr=addr, size=size)
                    except ValueError:
                        raise PathAbort()
                    local.append((r, s, e, spec["dw"], ((f"r{n}",),)))
                    poke()
                else:
                    child, sub = build(it["child"])
                    base = E.int(f"b{n}", 0, top) if it["mode"] == "sym" else None
                    # multi-part names (string and integer parts) every other window
                    name = ((f"w{n}",) if n % 2 else ("bank", n, "io")) if it["named"] else None
                    # lookups made BEFORE the window is there are part of the history as well (a driver probing whether a
                    # device or a fixed address is mapped yet): the resources behind the window are not found yet, the
                    # probed address holds what was added so far - and neither answer may stick
                    for r, s, e, w, path in sub:
                        try:
                            mm.find_resource(r)
                            E.prove(False, "find_resource found a resource before its window was added")
                        except KeyError:
                            pass
                    for probe in ([base] if base is not None else []) + [0, top - 1]:
                        d0 = mm.decode_address(probe)
                        if d0 is None:
                            for r, s, e, w, path in local:
                                E.prove(b_or(probe < s, probe >= e), "an address inside a reported range decodes to nothing")
                        else:
                            hit = [x for x in local if x[0] is d0]
                            E.prove(len(hit) == 1 and b_and(probe >= hit[0][1], probe < hit[0][2]),
                                    "decode_address during construction returned a resource whose range does not contain the address")
                    try:
                        ws, we, ratio = mm.add_window(child, name=name, addr=base, sparse=it["sparse"])
                    except ValueError:
                        raise PathAbort()
                    exp_ratio = spec["dw"] // it["child"]["dw"] if it["sparse"] is False else 1
                    E.prove(ratio == exp_ratio, "window ratio")
                    for r, s, e, w, path in sub:
                        local.append((r, ws + s // exp_ratio, ws + e // exp_ratio, w * exp_ratio,
                                      ((name,) if name else ()) + path))
                    poke()
            return mm, local

        try:
            root, oracle = build(shape)
        except _Stop:
            return
        # the root's sub-maps may also be mapped into another, unrelated root (a second bus master's view):
        # that must not disturb this root
        other = MemoryMap(addr_width=shape["aw"] + 2, data_width=shape["dw"])
        for w_, n_, (s_, e_, r_) in list(root.windows()):
            try:
                other.add_window(w_, sparse=(True if w_.data_width != shape["dw"] and r_ == 1 else (False if r_ > 1 else None)))
            except ValueError:
                pass
        try:
            infos = list(root.all_resources())
        except (TypeError, AssertionError, KeyError) as e:
            E.prove(False, "all_resources() fails with an internal error on a legal tree")
            return
        E.prove(len(infos) == len(oracle), "every added resource is reported exactly once")
        by_id = {id(r): (s, e, w, p) for r, s, e, w, p in oracle}
        seen = set()
        prev_end = 0
        for info in infos:
            E.prove(id(info.resource) in by_id and id(info.resource) not in seen, "reported resource was added, once")
            seen.add(id(info.resource))
            s, e, w, p = by_id[id(info.resource)]
            E.prove(b_and(info.start == s, info.end == e), "reported range = [b + s/r, b + e/r)")
            E.prove(info.width == w, "reported width = width * ratio")
            E.prove(tuple(tuple(n) for n in info.path) == p, "reported path = window names ++ resource name")
            E.prove(info.start >= prev_end, "ascending address order")
            prev_end = info.end
            try:
                f = root.find_resource(info.resource)
                E.prove(b_and(f.start == s, f.end == e, f.width == w), "find_resource agrees with all_resources")
                E.prove(tuple(tuple(n) for n in f.path) == p, "find_resource path")
            except KeyError:
                E.prove(False, "find_resource does not find a resource that was added")
            E.observe(info.start, info.end, info.width)
        try:
            root.find_resource(Res())
            E.prove(False, "find_resource found an object that was never added")
        except KeyError:
            pass
        A = E.int("A", 0, (1 << shape["aw"]) - 1)
        d = root.decode_address(A)
        if d is None:
            E.observe("none")
            for r, s, e, w, p in oracle:
                E.prove(b_or(A < s, A >= e), "an address inside a reported range decodes to nothing")
        else:
            E.prove(id(d) in by_id, "decode_address returned an unknown object")
            s, e, w, p = by_id[id(d)]
            E.observe("hit", s, e)
            E.prove(b_and(A >= s, A < e), "an address decodes to a resource whose reported range does not contain it")
    return h


def check(cfg, out, stats):
    out.extra = {}
    run_harness(PROPERTY, cfg, harness_for(cfg), [memory], out, stats, label="tree", max_paths=300_000)


def replay(v):
    return replay_concrete(harness_for(v["cfg"]), v)
