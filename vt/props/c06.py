"""C06 - CSR decoder routes each access to exactly one subordinate, transparently.

E1: csr.Decoder.add/elaborate + MemoryMap.add_window/window_patterns run for real per layout; the
decoder is combinational, so one free frame covers every combination of address, strobes and data.
Oracle = decoder.bus.memory_map.windows().
"""
import random

import z3
from amaranth import Module
from amaranth.lib import wiring
from amaranth.lib.wiring import Out

from amaranth_soc import csr
from amaranth_soc.memory import MemoryMap

from ..bmc import Harness, Ports, flat_ports, is1, bv, in_range, zext, raw
from ..e1 import Q, run_queries, replay as _replay

PROPERTY = "C06"
LEVEL = "model_checking"
META = {
    "engine": "E1 nir2smt, single free frame (combinational design)",
    "encoded": ["csr.bus.Decoder.__init__", "csr.bus.Decoder.add", "csr.bus.Decoder.align_to",
                "csr.bus.Decoder.elaborate", "memory.MemoryMap.add_window", "memory.MemoryMap.window_patterns",
                "memory.MemoryMap.windows", "memory.MemoryMap._compute_addr_range"],
    "also": 'a refused add() (out-of-bounds address; a second interface carrying the memory map of an accepted subordinate) left attached as an arbitrary bus; decoders elaborated once after k adds and extended afterwards; the ranges returned by add() are the oracle and windows() must agree; 12/16-bit address decoders; a single window filling the whole address space, a lone window smaller than it; a subordinate whose memory map object is also a window of a second decoder; flat-vs-tree bounded miter',
    "bounds": "addr width 3-7 (thorough 3-9) plus 12, 16, 58, 60, 64 bit decoders and one with 19 subordinates, data width 8/16, 0-4 (thorough 0-6) subordinate windows of width "
              "1..aw-1, implicit / explicit aligned / align_to placement, decoder alignment 0-3 including alignment "
              "larger than a window (padded windows), named and anonymous, seeded add orders, one level of nesting",
    "outside": "inside the alignment padding of a window (addresses the window's own bus cannot express) only "
               "'no OTHER subordinate is strobed' is asserted; ratio != 1 windows (csr.Decoder refuses them)",
    "assumptions": ["read-data clause: subordinates keep r_data at zero unless they were read in the previous cycle "
                    "(CSR bus contract); then bus.r_data is the data of the subordinate read in the previous cycle"],
}


class _Res(wiring.Component):
    def __init__(self):
        super().__init__({"element": Out(csr.Element.Signature(8, "rw"))})

    def elaborate(self, platform):
        return Module()


def _build(cfg):
    dec = csr.Decoder(addr_width=cfg["aw"], data_width=cfg["dw"], alignment=cfg["align"])
    subs = []
    for i, s in enumerate(cfg["subs"]):
        bus = csr.Interface(addr_width=s["aw"], data_width=cfg["dw"],
                            path={"same": ("periph", "bus"), "none": ()}.get(cfg.get("names"), (f"sub{i}",)))
        mm = MemoryMap(addr_width=s["aw"], data_width=cfg["dw"])
        if s.get("res"):
            mm.add_resource(_Res(), name=(f"r{i}",), size=1)
        bus.memory_map = mm
        if s.get("align_to") is not None:
            dec.align_to(s["align_to"])
        if s.get("inspect_before"):
            # the partly built decoder is looked at (patterns listed, elaborated) after the cursor was moved and before
            # the next subordinate is placed - possibly BELOW the cursor, ending exactly at it
            from amaranth.hdl import Fragment
            list(dec.bus.memory_map.window_patterns())
            Fragment.get(dec, None)
        bus._verif_range = dec.add(bus, name=(f"w{i}" if s.get("named") else None), addr=s.get("addr"))
        subs.append(bus)
        if cfg.get("staged") == i + 1:
            # the decoder is elaborated (e.g. a partial system is simulated) and extended afterwards
            from amaranth.hdl import Fragment
            Fragment.get(dec, None)
    if cfg.get("shared_map") and subs:
        # the memory map of the first subordinate is ALSO the window of a subordinate of a second, unrelated decoder
        dec2 = csr.Decoder(addr_width=cfg["aw"], data_width=cfg["dw"], alignment=cfg["align"])
        port_b = csr.Interface(addr_width=cfg["subs"][0]["aw"], data_width=cfg["dw"], path=("port_b",))
        port_b.memory_map = subs[0].memory_map
        dec2.add(port_b)
        dec._verif_other = (dec2, port_b)
    rejected = []
    if cfg.get("rejected"):
        # an add() that is refused (out-of-bounds explicit address) must leave no trace in the hardware
        rb = csr.Interface(addr_width=1, data_width=cfg["dw"], path=("rejected",))
        rb.memory_map = MemoryMap(addr_width=1, data_width=cfg["dw"])
        try:
            dec.add(rb, addr=1 << cfg["aw"])
            raise AssertionError("out-of-bounds window accepted")
        except ValueError:
            rejected.append(rb)
    if cfg.get("rejected_twin") is not None and subs:
        # ... and so must the refused add() of a SECOND interface that carries the memory map of a subordinate the
        # decoder already has (the window is "already added"): the first interface stays the routed one
        first = subs[cfg["rejected_twin"] % len(subs)]
        tw = csr.Interface(addr_width=first.addr_width, data_width=cfg["dw"], path=("twin",))
        tw.memory_map = first.memory_map
        try:
            dec.add(tw)
            raise AssertionError("the same window accepted twice")
        except ValueError:
            rejected.append(tw)
    dec._verif_rejected = rejected
    return dec, subs


def configs(tier, seed):
    rnd = random.Random(seed + 606)
    out = [{"aw": 4, "dw": 8, "align": 0, "subs": []}]
    want = 140 if tier == "quick" else 2500
    tries = 0
    while len(out) < want and tries < want * 20:
        tries += 1
        aw = rnd.randint(3, 7 if tier == "quick" else 9) if tries % 25 else rnd.choice([12, 16, 60, 64])
        cfg = {"aw": aw, "dw": rnd.choice([8, 16]), "align": rnd.choice([0, 0, 0, 1, 2, 3]), "subs": [],
               "rejected": rnd.random() < 0.3, "staged": rnd.choice([None, None, 1, 2]), "shared_map": tries % 5 == 2,
               "names": {3: "same", 5: "none"}.get(tries % 7),
               "rejected_twin": (tries // 3) % 4 if tries % 3 == 1 else None}
        for i in range(rnd.randint(1, 4 if tier == "quick" else 6)):
            s = {"aw": rnd.randint(1, aw - 1), "named": rnd.random() < 0.5, "res": rnd.random() < 0.7}
            mode = rnd.choice(["implicit", "implicit", "explicit", "align_to"])
            if mode == "explicit":
                size = 1 << max(s["aw"], cfg["align"])
                s["addr"] = rnd.randrange(0, (1 << aw) // size) * size
            elif mode == "align_to":
                s["align_to"] = rnd.randint(0, aw - 1)
            cfg["subs"].append(s)
        try:
            _build(cfg)
        except ValueError:
            continue
        out.append(cfg)
    # a single window that fills the decoder's whole address space (no constant address bits left to compare),
    # and a lone window smaller than the space (the decoder still has to compare the upper bits)
    for aw, dw in ((3, 8), (5, 16), (1, 8)):
        out.append({"aw": aw, "dw": dw, "align": 0, "subs": [{"aw": aw, "named": bool(aw % 2), "res": True}]})
        if aw > 1:
            out.append({"aw": aw, "dw": dw, "align": 0, "subs": [{"aw": aw - 2, "named": False, "res": True, "addr": 1 << (aw - 1)}]})
    # the cursor is moved past free space, the decoder is inspected, and the next subordinate goes BELOW the cursor,
    # ending exactly at it (nothing about the map's "next address" changes with that add)
    out.append({"aw": 5, "dw": 8, "align": 0, "subs": [{"aw": 2, "named": False, "res": True},
                                                        {"aw": 2, "named": True, "res": True, "align_to": 4, "inspect_before": True, "addr": 12}]})
    out.append({"aw": 6, "dw": 16, "align": 0, "subs": [{"aw": 1, "named": True, "res": True},
                                                         {"aw": 3, "named": False, "res": True, "align_to": 5, "inspect_before": True, "addr": 24},
                                                         {"aw": 2, "named": False, "res": True, "inspect_before": True, "addr": 8}]})
    # many subordinates (counts that are not a multiple of 2, 4 or 8: a fan-in folded in groups has a partial group)
    for count in ((19,) if tier == "quick" else (17, 19, 23, 37)):
        out.append({"aw": 9, "dw": 8, "align": 0,
                    "subs": [{"aw": 1 + (i % 3), "named": bool(i % 2), "res": True} for i in range(count)]})
    # small windows high up in a very wide address space (their base has more significant bits than a float carries)
    for aw in (58, 64):
        out.append({"aw": aw, "dw": 8, "align": 0,
                    "subs": [{"aw": aw - 1, "named": False, "res": True}] +
                            [{"aw": 4, "named": bool(i % 2), "res": True} for i in range(5)]})
    return out + flat_configs(tier, seed)


def maker(cfg):
    def make():
        dec, subs = _build(cfg)
        rej = dec._verif_rejected
        return Harness(dec, flat_ports(dec, *subs, *rej), dec=dec, subs=subs, rej=rej)
    return make


def queries(h, cfg):
    aw, dw = cfg["aw"], cfg["dw"]

    def layout(h):
        return [(sub, sub._verif_range[0], sub._verif_range[1]) for sub in h.subs]      # what add() promised

    def routing(h, fr):
        f = fr[0]
        bus = h.dec.bus
        A = f.sig(bus.addr)
        rs, ws = is1(f.sig(bus.r_stb)), is1(f.sig(bus.w_stb))
        bad = []
        lay = layout(h)
        for sub, start, stop in lay:
            core = in_range(A, start, start + (1 << sub.addr_width))
            own = in_range(A, start, stop)
            srs, sws = is1(f.sig(sub.r_stb)), is1(f.sig(sub.w_stb))
            # inside the window proper: strobes forwarded exactly, low address bits and data unchanged
            bad.append(z3.And(core, z3.Or(srs != rs, sws != ws)))
            bad.append(z3.And(core, z3.Or(rs, ws), z3.Or(f.sig(sub.addr) != z3.Extract(sub.addr_width - 1, 0, A),
                                                      f.sig(sub.w_data) != f.sig(bus.w_data))))
            # outside the window proper - also in the padding that a decoder alignment larger than the subordinate's
            # address width adds to the allocated range, where the memory map reports nothing: never strobed (the
            # registers behind the window must not alias onto addresses the map reports as free)
            bad.append(z3.And(z3.Not(core), z3.Or(srs, sws)))
        for rb in h.rej:
            bad.append(z3.Or(is1(f.sig(rb.r_stb)), is1(f.sig(rb.w_stb))))
        return [], z3.Or(*bad) if bad else z3.BoolVal(False)

    def rdata(h, fr):
        """Subordinates obey the CSR bus contract (r_data is zero unless the subordinate was read in the previous
        cycle); then the upstream read data is that of the subordinate read in the previous cycle, zero if none.
        (Stated over two frames so that it holds for an OR-composition and for a registered-select multiplexer.)"""
        f0, f1 = fr
        bus = h.dec.bus
        assume = [z3.Implies(f0.sig(s_.r_stb) == 0, f1.sig(s_.r_data) == 0) for s_ in h.subs]   # (a refused bus is not a subordinate: its r_data is arbitrary)
        if not h.subs:
            return assume, f1.sig(bus.r_data) != 0
        bad = []
        for sub in h.subs:
            bad.append(z3.And(is1(f0.sig(sub.r_stb)), f1.sig(bus.r_data) != f1.sig(sub.r_data)))
        bad.append(z3.And(z3.And(*[f0.sig(s_.r_stb) == 0 for s_ in h.subs]), f1.sig(bus.r_data) != 0))
        return assume, z3.Or(*bad)

    def twin(h, fr):
        f = fr[0]
        return [], z3.Or(*[is1(f.sig(s.w_stb)) for s in h.subs]) if h.subs else z3.BoolVal(True)
    return [Q("routing-exact", 1, routing, twin=twin), Q("read-data-of-addressed-sub", 2, rdata)]


# ---------------------------------------------------------------------------------------------------
# flat-vs-tree: registers behind a tree of decoders behave like the same registers on ONE multiplexer
# at the addresses the root memory map reports (bounded miter from reset, conforming streams)
# ---------------------------------------------------------------------------------------------------
def flat_configs(tier, seed):
    rnd = random.Random(seed + 6060)
    out = []
    want = 24 if tier == "quick" else 300
    tries = 0
    while len(out) < want and tries < want * 40:
        tries += 1
        dw = rnd.choice([8, 16])
        aw = rnd.randint(5, 7)

        def leaf():
            regs = []
            for i in range(rnd.randint(1, 2)):
                r = {"w": rnd.choice([1, dw, dw + 3, 2 * dw, 3 * dw]), "acc": rnd.choice(["r", "w", "rw", "rw"])}
                if rnd.random() < 0.3:
                    r["addr"] = rnd.randrange(0, 8)
                regs.append(r)
            return {"k": "mux", "aw": rnd.randint(2, 3), "regs": regs}

        def dec(depth, aw_):
            wins = []
            for i in range(rnd.randint(1, 3)):
                node = dec(depth + 1, rnd.randint(3, aw_ - 1)) if depth < 1 and aw_ > 4 and rnd.random() < 0.35 else leaf()
                wins.append({"node": node, "named": rnd.random() < 0.5})
            return {"k": "dec", "aw": aw_, "align": rnd.choice([0, 0, 1]), "wins": wins}
        cfg = {"flat": True, "dw": dw, "tree": dec(0, aw)}
        try:
            t, f = _flat_pair(cfg)
            t.translate()
            f.translate()
        except ValueError:
            continue
        out.append(cfg)
    return out


def _flat_pair(cfg):
    """(tree harness, flat harness) with stub registers created in the same order."""
    from amaranth import Module
    from . import mux as MX
    dw = cfg["dw"]

    def build(node, top, path, stubs):
        if node["k"] == "mux":
            mm, regs = MX.build_map({"aw": node["aw"], "dw": dw, "align": 0, "regs": node["regs"]})
            mx = csr.Multiplexer(mm)
            top.submodules["_".join(path)] = mx
            stubs += regs
            return mx.bus
        dec = csr.Decoder(addr_width=node["aw"], data_width=dw, alignment=node.get("align", 0))
        for i, w in enumerate(node["wins"]):
            dec.add(build(w["node"], top, path + (f"w{i}",), stubs), name=((f"n{i}",) if w["named"] else None))
        top.submodules["_".join(path)] = dec
        return dec.bus
    top = Module()
    stubs = []
    bus = build(cfg["tree"], top, ("root",), stubs)
    ports = Ports()
    for path, member, s in bus.signature.flatten(bus):
        s = raw(s)
        ports.append(s)
        if path[-1] in ("addr", "r_stb", "w_stb", "w_data"):
            ports.env.add(id(s))
    tree = Harness(top, ports + flat_ports(*stubs), bus=bus, regs=stubs)
    ranges = []
    flat_mm = MemoryMap(addr_width=bus.addr_width, data_width=dw)
    regs2 = []
    for reg in stubs:
        info = bus.memory_map.find_resource(reg)
        r2 = MX.StubReg(reg.element.width, reg.element.access)
        flat_mm.add_resource(r2, name=tuple(str(p) for n in info.path for p in n), addr=info.start, size=info.end - info.start)
        regs2.append(r2)
        ranges.append((reg.element.access.readable(), reg.element.access.writable(), info.start, info.end))
    fmux = csr.Multiplexer(flat_mm)
    flat = Harness(fmux, flat_ports(fmux, *regs2), bus=fmux.bus, regs=regs2)
    tree.ranges = flat.ranges = ranges
    return tree, flat


def _obs(h, f):
    obs = [f.sig(h.bus.r_data)]
    for r in h.regs:
        el = r.element
        if el.access.readable():
            obs.append(f.sig(el.r_stb))
        if el.access.writable():
            ws = f.sig(el.w_stb)
            obs.append(ws)
            if el.width:
                obs.append(z3.If(ws == 1, f.sig(el.w_data), bv(el.width, 0)))
    return obs


def flat_check(cfg, out, stats):
    from . import mux as MX
    from ..bmc import unroll, solve, model_stimulus, mark_violation, Inconclusive
    from ..e1 import cfg_key
    tree, flat = _flat_pair(cfg)
    ta, tb = tree.translate(), flat.translate()
    if ta.inputs != tb.inputs:
        raise Inconclusive("flat-vs-tree: the two netlists do not expose identical input ports")
    maxc = max(e - s for _, _, s, e in tree.ranges)
    D = 2 * maxc + 4
    fa, ca = unroll(ta, D, init="reset", tag="m")
    fb, cb = unroll(tb, D, init="reset", tag="m")
    assume = ca + MX.conf_streams(tree.bus, tree.ranges, fa)
    diffs = [x != y for t in range(D) for x, y in zip(_obs(tree, fa[t]), _obs(flat, fb[t]))]
    r, m = solve(assume + [z3.Or(*diffs)], stats, "flat-vs-tree")
    stats.twins += 1
    ev = z3.Or(*[fa[t].sig(tree.bus.r_data) != 0 for t in range(D)] +
               [is1(fa[t].sig(rg.element.w_stb)) for t in range(D) for rg in tree.regs if rg.element.access.writable()] +
               [is1(fa[t].sig(rg.element.r_stb)) for t in range(D) for rg in tree.regs if rg.element.access.readable()])
    rt, _ = solve(assume + [ev], None, "twin", want_model=False)
    if rt != "sat":
        raise Inconclusive("flat-vs-tree harness vacuous")
    stats.twins_sat += 1
    if len(stats.samples) < 4:
        stats.samples.append({"cfg": cfg, "query": "flat-vs-tree miter", "frames": D, "verdict": r})
    if r == "sat":
        stim = model_stimulus(ta, fa, m)
        v = {"key": f"flat-vs-tree@{cfg_key(cfg)}",
             "what": f"C06 registers behind the decoder tree behave differently from the same registers on one "
                     f"multiplexer at the addresses the memory map reports ({D} cycles from reset, {cfg_key(cfg)})",
             "query": "flat-vs-tree", "cfg": cfg, "stimulus": stim, "prefix": 0, "k": D, "detail": {}}
        stats.replays += 1
        if not _flat_replay(v):
            raise Inconclusive("flat-vs-tree counterexample does not reproduce on the simulator")
        mark_violation(v["key"])
        out.violations.append(v)


def _flat_replay(v):
    from ..bmc import simulate, SimFrame, _TraceFrame
    traces = []
    for h in _flat_pair(v["cfg"]):
        rec = {}
        _obs(h, _TraceFrame(rec))
        tr = simulate(h, v["stimulus"], list(rec.values()))
        traces.append([[z3.simplify(x).as_long() for x in _obs(h, SimFrame(row))] for row in tr])
    return traces[0] != traces[1]


def _windows_agree(cfg):
    dec, subs = _build(cfg)
    rep = {id(w): (s_, e_, r_) for w, n_, (s_, e_, r_) in dec.bus.memory_map.windows()}
    return all(rep.get(id(sub.memory_map)) == tuple(sub._verif_range) for sub in subs) and len(rep) == len(subs)


def check(cfg, out, stats):
    if cfg.get("flat"):
        return flat_check(cfg, out, stats)
    if not _windows_agree(cfg):
        from ..bmc import mark_violation
        from ..e1 import cfg_key
        mark_violation("windows-disagree")
        out.violations.append({"key": f"windows-disagree@{cfg_key(cfg)}",
                               "what": f"C06 the decoder's memory map does not report the windows its add() calls returned "
                                       f"({cfg_key(cfg)})", "query": "windows", "cfg": cfg, "stimulus": [], "prefix": 0,
                               "k": 0, "detail": {}})
        return
    run_queries(__import__(__name__, fromlist=["x"]), cfg, out, stats, cosim_cycles=8)


def replay(v):
    if v["query"] == "windows":
        return not _windows_agree(v["cfg"])
    if v["query"] == "flat-vs-tree":
        return _flat_replay(v)
    return _replay(__import__(__name__, fromlist=["x"]), v)
