"""C06 - CSR decoder routes each access to exactly one subordinate, transparently.

E1: csr.Decoder.add/elaborate + MemoryMap.add_window/window_patterns run for real per layout; the
decoder is combinational, so one free frame covers every combination of address, strobes and data.
Oracle = decoder.bus.memory_map.windows().
"""
import random

import z3
from amaranth import Module
from amaranth.lib import wiring
from amaranth.lib.wiring import Out

from amaranth_soc import csr
from amaranth_soc.memory import MemoryMap

from ..bmc import Harness, flat_ports, is1, bv, in_range, zext
from ..e1 import Q, run_queries, replay as _replay

PROPERTY = "C06"
LEVEL = "model_checking"
META = {
    "engine": "E1 nir2smt, single free frame (combinational design)",
    "encoded": ["csr.bus.Decoder.__init__", "csr.bus.Decoder.add", "csr.bus.Decoder.align_to",
                "csr.bus.Decoder.elaborate", "memory.MemoryMap.add_window", "memory.MemoryMap.window_patterns",
                "memory.MemoryMap.windows", "memory.MemoryMap._compute_addr_range"],
    "bounds": "addr width 3-7 (thorough 3-9), data width 8/16, 0-4 (thorough 0-6) subordinate windows of width "
              "1..aw-1, implicit / explicit aligned / align_to placement, decoder alignment 0-3 including alignment "
              "larger than a window (padded windows), named and anonymous, seeded add orders, one level of nesting",
    "outside": "inside the alignment padding of a window (addresses the window's own bus cannot express) only "
               "'no OTHER subordinate is strobed' is asserted; ratio != 1 windows (csr.Decoder refuses them)",
    "assumptions": ["read-data clause: with every subordinate except k presenting zero, bus.r_data == sub_k.r_data"],
}


class _Res(wiring.Component):
    def __init__(self):
        super().__init__({"element": Out(csr.Element.Signature(8, "rw"))})

    def elaborate(self, platform):
        return Module()


def _build(cfg):
    dec = csr.Decoder(addr_width=cfg["aw"], data_width=cfg["dw"], alignment=cfg["align"])
    subs = []
    for i, s in enumerate(cfg["subs"]):
        bus = csr.Interface(addr_width=s["aw"], data_width=cfg["dw"], path=(f"sub{i}",))
        mm = MemoryMap(addr_width=s["aw"], data_width=cfg["dw"])
        if s.get("res"):
            mm.add_resource(_Res(), name=(f"r{i}",), size=1)
        bus.memory_map = mm
        if s.get("align_to") is not None:
            dec.align_to(s["align_to"])
        dec.add(bus, name=(f"w{i}" if s.get("named") else None), addr=s.get("addr"))
        subs.append(bus)
    return dec, subs


def configs(tier, seed):
    rnd = random.Random(seed + 606)
    out = [{"aw": 4, "dw": 8, "align": 0, "subs": []}]
    want = 140 if tier == "quick" else 2500
    tries = 0
    while len(out) < want and tries < want * 20:
        tries += 1
        aw = rnd.randint(3, 7 if tier == "quick" else 9)
        cfg = {"aw": aw, "dw": rnd.choice([8, 16]), "align": rnd.choice([0, 0, 0, 1, 2, 3]), "subs": []}
        for i in range(rnd.randint(1, 4 if tier == "quick" else 6)):
            s = {"aw": rnd.randint(1, aw - 1), "named": rnd.random() < 0.5, "res": rnd.random() < 0.7}
            mode = rnd.choice(["implicit", "implicit", "explicit", "align_to"])
            if mode == "explicit":
                size = 1 << max(s["aw"], cfg["align"])
                s["addr"] = rnd.randrange(0, (1 << aw) // size) * size
            elif mode == "align_to":
                s["align_to"] = rnd.randint(0, aw - 1)
            cfg["subs"].append(s)
        try:
            _build(cfg)
        except ValueError:
            continue
        out.append(cfg)
    return out


def maker(cfg):
    def make():
        dec, subs = _build(cfg)
        return Harness(dec, flat_ports(dec, *subs), dec=dec, subs=subs)
    return make


def queries(h, cfg):
    aw, dw = cfg["aw"], cfg["dw"]

    def layout(h):
        wins = {id(w): (start, stop) for w, name, (start, stop, ratio) in h.dec.bus.memory_map.windows()}
        return [(sub,) + wins[id(sub.memory_map)] for sub in h.subs]

    def routing(h, fr):
        f = fr[0]
        bus = h.dec.bus
        A = f.sig(bus.addr)
        rs, ws = is1(f.sig(bus.r_stb)), is1(f.sig(bus.w_stb))
        bad = []
        lay = layout(h)
        for sub, start, stop in lay:
            core = in_range(A, start, start + (1 << sub.addr_width))
            own = in_range(A, start, stop)
            srs, sws = is1(f.sig(sub.r_stb)), is1(f.sig(sub.w_stb))
            # inside the window proper: strobes forwarded exactly, low address bits and data unchanged
            bad.append(z3.And(core, z3.Or(srs != rs, sws != ws)))
            bad.append(z3.And(core, z3.Or(rs, ws), z3.Or(f.sig(sub.addr) != z3.Extract(sub.addr_width - 1, 0, A),
                                                      f.sig(sub.w_data) != f.sig(bus.w_data))))
            # outside the window's range: never strobed
            bad.append(z3.And(z3.Not(own), z3.Or(srs, sws)))
        return [], z3.Or(*bad) if bad else z3.BoolVal(False)

    def rdata(h, fr):
        f = fr[0]
        bus = h.dec.bus
        if not h.subs:
            return [], f.sig(bus.r_data) != 0
        bad = []
        for k, sub in enumerate(h.subs):
            others_zero = z3.And(*[f.sig(o.r_data) == 0 for j, o in enumerate(h.subs) if j != k]) \
                if len(h.subs) > 1 else z3.BoolVal(True)
            bad.append(z3.And(others_zero, f.sig(bus.r_data) != f.sig(sub.r_data)))
        return [], z3.Or(*bad)

    def twin(h, fr):
        f = fr[0]
        return [], z3.Or(*[is1(f.sig(s.w_stb)) for s in h.subs]) if h.subs else z3.BoolVal(True)
    return [Q("routing-exact", 1, routing, twin=twin), Q("read-data-of-addressed-sub", 1, rdata)]


def check(cfg, out, stats):
    run_queries(__import__(__name__, fromlist=["x"]), cfg, out, stats, cosim_cycles=8)


def replay(v):
    return _replay(__import__(__name__, fromlist=["x"]), v)
