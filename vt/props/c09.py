"""C09 - Wishbone arbiter is round-robin fair: no requester can be starved.

E1: exact next-owner function from every reachable state (Q-step) + liveness as lasso search over
L = |reachable| frames (complete: the state space is the reachable set).
"""
import z3

from .arb import configs, maker, owns, busy, ffvec, state_is, analyse, replay_violation
from ..bmc import unroll, solve, model_stimulus, Inconclusive, is1
from ..e1 import cfg_key

PROPERTY = "C09"
LEVEL = "model_checking"
META = {
    "engine": "E1 nir2smt; exact reachability + one-step next-owner function + lasso search",
    "encoded": ["wishbone.bus.Arbiter.add", "wishbone.bus.Arbiter.elaborate"],
    "also": 'same family as C08; lasso search for N <= 6',
    "bounds": "same configuration family as C08; next-owner: 2 frames from each reachable state; lasso: "
              "L = |reachable states| + 1 frames from any reachable state (completeness threshold of the finite "
              "state graph), per initiator",
    "outside": "behaviour under rst; N > 5",
    "assumptions": ["owner(s) as established observationally by the C08 analysis (re-run here); when the full relation "
                    "cannot be established, by who receives the target's responses",
                    "released = not (owner.cyc and (no LOCK feature or owner.lock or owner.stb))"],
}


def check(cfg, out, stats):
    make = maker(cfg)
    make().translate()       # warm-up instance: no process-global state may leak into the next elaboration
    h = make()
    ts = h.translate()
    res = analyse(cfg, h, stats, out, "C09")
    relation = "full"
    if res is None:
        # the full ownership relation (C08's subject) fails for this arbiter; fairness is then judged on who receives
        # the target's responses
        relation = "ack"
        res = analyse(cfg, h, stats, out, "C09", relation="ack")
    out.extra = {}
    if res is None:
        out.skipped = "no single owner per state (reported under C08)"
        stats.notes.append("configuration skipped: ownership not established (C08's subject)")
        return
    R, owner = res
    N = cfg["N"]
    out.extra = {"states": len(R.states), "transitions": R.transitions}
    of = lambda i: [s for s in R.states if owner[s] == i]
    # ---- exact next-owner function ----------------------------------------------------------------
    for r in R.states:
        i = owner[r]
        frames, cons = unroll(ts, 2, init="free", tag="X")
        f0, f1 = frames
        nxt = ffvec(ts, f1.state)
        owner_next = lambda j: z3.Or(*[state_is(nxt, s) for s in of(j)]) if of(j) else z3.BoolVal(False)
        exp = owner_next(i)
        for j in reversed([(i + k) % N for k in range(1, N)]):
            exp = z3.If(is1(f0.sig(h.intrs[j].cyc)), owner_next(j), exp)
        exp = z3.If(busy(h, f0, i), owner_next(i), exp)
        q = cons + [state_is(ffvec(ts, f0.state), r), z3.Not(exp)]
        rr, m = solve(q, stats, "next-owner")
        if len(stats.samples) < 4:
            stats.samples.append({"cfg": cfg, "query": "next-owner", "state": list(r), "owner": i, "verdict": rr})
        if rr == "sat":
            s2 = tuple(m.eval(a, model_completion=True).as_long() for a in nxt)
            if s2 not in owner:
                raise Inconclusive(f"next state {s2} outside the reachable set")
            # concrete expected owner under the model
            bz = z3.is_true(m.eval(busy(h, f0, i), model_completion=True))
            e = i
            if not bz:
                for j in [(i + k) % N for k in range(1, N)]:
                    if m.eval(f0.sig(h.intrs[j].cyc), model_completion=True).as_long() == 1:
                        e = j
                        break
            wit = owner[("witness", s2)].get(e)
            if wit is None:
                raise Inconclusive("inconsistent owner map")
            stim = R.path[r] + model_stimulus(ts, frames[:1], m) + wit
            v = {"key": f"next-owner@{cfg_key(cfg)}",
                 "what": f"C09 from owner {i} (state {list(r)}) ownership goes to {owner[s2]} but round-robin "
                         f"order requires {e} (configuration {cfg_key(cfg)})",
                 "query": "no-preemption" if bz else "next-owner", "cfg": cfg, "path": R.path[r], "stimulus": stim,
                 "owner": i, "expected": e, "prefix": 0, "k": 0, "detail": {}, "relation": relation}
            stats.replays += 1
            if not replay_violation(v):
                raise Inconclusive("next-owner counterexample does not reproduce on the simulator")
            out.violations.append(v)
            from ..bmc import mark_violation
            mark_violation()
            return
    # ---- starvation lasso -----------------------------------------------------------------------------
    L = len(R.states) + 1
    if N > 6:
        # the exact next-owner function proved above already implies fairness; the explicit lasso search
        # (L = |states|+1 frames per initiator) is run for the small arbiters only
        stats.notes.append("lasso search skipped for N > 6 (exact next-owner function proved on every transition)")
        return
    for j in range(N):
        if N == 1:
            break
        frames, cons = unroll(ts, L + 1, init="free", tag=f"L{j}")
        q = list(cons)
        q.append(z3.Or(*[state_is(ffvec(ts, frames[0].state), r) for r in R.states]))
        released = []
        for t in range(L):
            f = frames[t]
            q.append(is1(f.sig(h.intrs[j].cyc)))
            q.append(is1(f.sig(h.arb.bus.ack)))
            q.append(f.sig(h.intrs[j].ack) == 0)
            st = ffvec(ts, f.state)
            q.append(z3.Not(z3.Or(*[state_is(st, s) for s in of(j)])) if of(j) else z3.BoolVal(True))
            rel = z3.Or(*[z3.And(state_is(st, s), z3.Not(busy(h, f, owner[s]))) for s in R.states])
            released.append(rel)
        stL = ffvec(ts, frames[L].state)
        loops = []
        for k in range(L):
            stk = ffvec(ts, frames[k].state)
            same = z3.And(*[a == b for a, b in zip(stL, stk)]) if stL else z3.BoolVal(True)
            loops.append(z3.And(same, z3.Or(*released[k:L])))
        rr, m = solve(q + [z3.Or(*loops)], stats, f"lasso{j}")
        # twin: without the release requirement a starving loop must exist (owner holds the bus forever)
        stats.twins += 1
        loops_t = []
        for k in range(L):
            stk = ffvec(ts, frames[k].state)
            loops_t.append(z3.And(*[a == b for a, b in zip(stL, stk)]) if stL else z3.BoolVal(True))
        rt, _ = solve(q + [z3.Or(*loops_t)], None, "lasso-twin", want_model=False)
        if rt != "sat":
            raise Inconclusive("lasso twin unsat: starvation harness is vacuous")
        stats.twins_sat += 1
        if rr == "sat":
            s0 = tuple(m.eval(a, model_completion=True).as_long() for a in ffvec(ts, frames[0].state))
            stim = R.path[s0] + model_stimulus(ts, frames[:L], m)
            v = {"key": f"starvation@{cfg_key(cfg)}",
                 "what": f"C09 initiator {j} requests continuously and is never granted although the bus is "
                         f"released within the loop (configuration {cfg_key(cfg)})",
                 "query": "starvation-lasso", "cfg": cfg, "path": R.path[s0], "stimulus": stim, "victim": j,
                 "prefix": 0, "k": 0, "detail": {}, "relation": relation}
            stats.replays += 1
            if not replay_violation(v):
                raise Inconclusive("starvation lasso does not reproduce on the simulator")
            out.violations.append(v)
            from ..bmc import mark_violation
            mark_violation()
            return


def replay(v):
    return replay_violation(v)
