"""Shared machinery for C08 / C09 (wishbone.Arbiter).

Ownership is defined observationally, not through the private ``grant`` register: the exact set R of
reachable flip-flop valuations is computed by all-SAT image iteration (each state remembers the
input path that reaches it from reset); for each state s and candidate i, a query decides whether
``Owns_i`` holds at s for ALL inputs.  Exactly one candidate must pass; that defines owner(s).
"""
import itertools
import random

import z3

from amaranth_soc import wishbone
from amaranth_soc.wishbone import CycleType, BurstTypeExt

from ..bmc import Harness, flat_ports, is1, bv, solve, unroll, simulate, SimFrame, model_stimulus, Inconclusive

FEATS = ["err", "rty", "stall", "lock", "cti", "bte"]


def F(*a):
    return sorted(a)


def configs(tier, seed):
    rnd = random.Random(seed + 808)
    out = []

    def add(N, af, ifs, ag, igs, dw=16):
        k = len(out)
        out.append({"N": N, "afeat": sorted(af), "ifeat": [sorted(x) for x in ifs], "agran": ag,
                    "igran": list(igs), "dw": dw, "aw": 2,
                    # features spelled as wishbone.Feature members instead of strings
                    "enum": k % 3 == 1,
                    # an add() that the arbiter refuses (initiator lacks err/rty) before / between the valid ones
                    "refused_at": (k % N) if (k % 4 == 2 and ("err" in af or "rty" in af)) else None,
                    # the arbiter is elaborated once after this many initiators and extended afterwards
                    "staged": (1 + k % N) if (k % 5 == 3 and N > 1) else None,
                    # all initiators carry the SAME path (several cores each exposing ("cpu", "dbus")) / no path at all
                    "names": "same" if k % 7 == 4 else ("none" if k % 7 == 6 else None)})
    # hand-picked representatives
    add(1, [], [[]], 8, [8])
    add(1, ["lock", "stall"], [["stall"]], 16, [16])
    add(2, [], [[], []], 8, [8, 16])
    add(2, ["lock"], [["lock"], []], 8, [16, 8])
    add(2, ["stall"], [["stall"], []], 16, [16, 16])
    add(2, [], [["stall"], ["stall", "err"]], 8, [8, 8])          # stall-compat: no shared stall line
    add(2, ["err", "rty"], [["err", "rty", "stall"], ["err", "rty"]], 8, [8, 16])
    add(3, ["lock", "err"], [["lock", "err", "stall"], ["err"], ["err", "rty", "lock", "cti"]], 8, [8, 16, 16])
    add(3, FEATS, [["err", "rty", "stall"]] * 3, 16, [16, 16, 16])
    add(3, ["cti", "bte"], [["cti"], ["bte"], ["cti", "bte", "lock"]], 8, [16, 8, 8])
    add(4, ["stall"], [["stall"], [], ["stall", "lock"], []], 16, [16] * 4)
    add(4, ["lock", "rty"], [["rty"], ["rty", "lock"], ["rty", "stall"], ["rty", "err"]], 8, [8, 16, 8, 16])
    # every legal (data width, arbiter granularity, initiator granularity) combination (select fan-out ratios 1-8)
    for dw in (8, 16, 32, 64):
        for ag in (8, 16, 32, 64):
            for ig in (8, 16, 32, 64):
                if ag <= ig <= dw:
                    add(2, ["lock"] if (dw + ag + ig) % 3 == 0 else [], [["lock"], []], ag, [ig, ag], dw)
    # many initiators (request/grant index handling beyond one decimal digit)
    add(11, [], [[]] * 11, 8, [8] * 11, 8)
    if tier == "thorough":
        add(16, ["lock"], [["lock"]] * 16, 8, [8] * 16, 8)
    # seeded random mixes
    n_rand = 12 if tier == "quick" else 120
    nmax = 4 if tier == "quick" else 5
    for _ in range(n_rand):
        N = rnd.randint(1, nmax)
        dw = rnd.choice([8, 16, 32] if tier == "quick" else [8, 16, 32, 64])
        grans = [g for g in (8, 16, 32, 64) if g <= dw]
        ag = rnd.choice(grans)
        af = [f for f in FEATS if rnd.random() < 0.45]
        ifs, igs = [], []
        for i in range(N):
            fi = {f for f in FEATS if rnd.random() < 0.45}
            for f in ("err", "rty"):
                if f in af:
                    fi.add(f)
            ifs.append(sorted(fi))
            igs.append(rnd.choice([g for g in grans if g >= ag]))
        add(N, af, ifs, ag, igs, dw)
    if tier == "thorough":
        # every arbiter feature subset with uniform full-featured initiators, N = 2, 3
        for N in (2, 3):
            for r in range(len(FEATS) + 1):
                for af in itertools.combinations(FEATS, r):
                    add(N, af, [FEATS] * N, 8, [8] * N, 16)
    return out


def maker(cfg):
    def make():
        fe = (lambda fs: [wishbone.Feature(f) for f in fs]) if cfg.get("enum") else (lambda fs: fs)
        arb = wishbone.Arbiter(addr_width=cfg["aw"], data_width=cfg["dw"], granularity=cfg["agran"],
                               features=fe(cfg["afeat"]))
        path_of = {"same": lambda i: ("cpu", "dbus"), "none": lambda i: ()}.get(cfg.get("names"), lambda i: (f"i{i}",))
        intrs = [wishbone.Interface(addr_width=cfg["aw"], data_width=cfg["dw"], granularity=cfg["igran"][i],
                                    features=fe(cfg["ifeat"][i]), path=path_of(i)) for i in range(cfg["N"])]
        ghosts = []
        for i, it in enumerate(intrs):
            if cfg.get("refused_at") == i:
                g = wishbone.Interface(addr_width=cfg["aw"], data_width=cfg["dw"], granularity=cfg["agran"],
                                       features=[], path=("refused",))
                try:
                    arb.add(g)
                    raise AssertionError("initiator without err/rty accepted by an arbiter that has them")
                except ValueError:
                    ghosts.append(g)       # still wired to something else in the design: its outputs are arbitrary
            arb.add(it)
            if cfg.get("staged") == i + 1 and i + 1 < len(intrs):
                from amaranth.hdl import Fragment
                Fragment.get(arb, None)
        ports = flat_ports(arb) + flat_ports(*intrs, env="out")
        if ghosts:
            ports = ports + flat_ports(*ghosts, env="out")
        return Harness(arb, ports, arb=arb, intrs=intrs, ghosts=ghosts)
    return make


# ---------------------------------------------------------------------------------------------------
def owns(h, f, i):
    """Owns_i in frame f: the shared bus carries initiator i's request, i sees the target's
    responses, everybody else sees none (and a stall)."""
    bus, intrs = h.arb.bus, h.intrs
    it = intrs[i]
    ratio = it.granularity // bus.granularity
    nsel = len(bus.sel)
    isel = f.sig(it.sel)
    bits = [z3.Extract(k // ratio, k // ratio, isel) for k in range(nsel)]
    sel = bits[0] if nsel == 1 else z3.Concat(*reversed(bits))
    c = [f.sig(bus.adr) == f.sig(it.adr), f.sig(bus.dat_w) == f.sig(it.dat_w), f.sig(bus.sel) == sel,
         f.sig(bus.we) == f.sig(it.we), f.sig(bus.stb) == f.sig(it.stb), f.sig(bus.cyc) == f.sig(it.cyc),
         f.sig(it.dat_r) == f.sig(bus.dat_r), f.sig(it.ack) == f.sig(bus.ack)]
    if hasattr(bus, "lock"):
        c.append(f.sig(bus.lock) == (f.sig(it.lock) if hasattr(it, "lock") else bv(1, 0)))
    if hasattr(bus, "cti"):
        c.append(f.sig(bus.cti) == (f.sig(it.cti) if hasattr(it, "cti") else bv(3, 0b000)))
    if hasattr(bus, "bte"):
        c.append(f.sig(bus.bte) == (f.sig(it.bte) if hasattr(it, "bte") else bv(2, 0b00)))
    for nm in ("err", "rty"):
        if hasattr(it, nm):
            c.append(f.sig(getattr(it, nm)) == (f.sig(getattr(bus, nm)) if hasattr(bus, nm) else bv(1, 0)))
    if hasattr(it, "stall"):
        c.append(f.sig(it.stall) == (f.sig(bus.stall) if hasattr(bus, "stall") else ~f.sig(bus.ack)))
    for j, ot in enumerate(intrs):
        if j == i:
            continue
        c.append(f.sig(ot.ack) == 0)
        for nm in ("err", "rty"):
            if hasattr(ot, nm):
                c.append(f.sig(getattr(ot, nm)) == 0)
        if hasattr(ot, "stall"):
            c.append(f.sig(ot.stall) == 1)
    return z3.And(*c)


def owns_ack(h, f, i):
    """Reduced ownership relation (C09's fallback when the full one cannot be established): initiator i - and nobody
    else - sees the target's acknowledge / error / retry."""
    bus, intrs = h.arb.bus, h.intrs
    it = intrs[i]
    c = [f.sig(it.ack) == f.sig(bus.ack)]
    for nm in ("err", "rty"):
        if hasattr(it, nm):
            c.append(f.sig(getattr(it, nm)) == (f.sig(getattr(bus, nm)) if hasattr(bus, nm) else bv(1, 0)))
    for j, ot in enumerate(intrs):
        if j != i:
            c.append(f.sig(ot.ack) == 0)
    return z3.And(*c)


RELATIONS = {"full": owns, "ack": owns_ack}


def busy(h, f, i):
    """The owner's bus cycle is in progress: cyc, and (when the shared bus supports locking) lock|stb."""
    bus, it = h.arb.bus, h.intrs[i]
    b = is1(f.sig(it.cyc))
    if hasattr(bus, "lock"):
        lk = is1(f.sig(it.lock)) if hasattr(it, "lock") else z3.BoolVal(False)
        b = z3.And(b, z3.Or(lk, is1(f.sig(it.stb))))
    return b


def ffvec(ts, st):
    return [st[("ff", i)] for i in sorted(ts.ffs)]


def state_is(vec, r):
    return z3.And(*[a == bv(a.size(), c) for a, c in zip(vec, r)]) if vec else z3.BoolVal(True)


class Reach:
    """Exact reachable set of FF valuations, with a reset-rooted input path per state."""
    def __init__(self, h, stats, limit=2048):
        ts = h.translate()
        self.ts = ts
        init = tuple(z3.simplify(v).as_long() for v in ffvec(ts, ts.reset_state()))
        self.states = [init]
        self.path = {init: []}
        self.transitions = 0
        frontier = [init]
        while frontier:
            cur = frontier.pop(0)
            while True:
                frames, cons = unroll(ts, 1, init="free", tag="R")
                f = frames[0]
                nv = ffvec(ts, f.next_state())
                if not nv:
                    break
                q = cons + [state_is(ffvec(ts, f.state), cur)] + [z3.Not(state_is(nv, r)) for r in self.states]
                r, m = solve(q, stats, "reach")
                if r != "sat":
                    break
                new = tuple(m.eval(a, model_completion=True).as_long() for a in nv)
                self.states.append(new)
                self.path[new] = self.path[cur] + model_stimulus(ts, frames, m)
                self.transitions += 1
                frontier.append(new)
                if len(self.states) > limit:
                    raise Inconclusive("reachable control state set larger than the limit")


def sim_eval(make, stimulus, checks):
    """checks: list of (frame index, fn(h, frame) -> z3 Bool).  True iff all hold on the simulator."""
    from ..bmc import _TraceFrame, fresh
    h2 = fresh(make)
    rec = {}
    dry = _TraceFrame(rec)
    for _, fn in checks:
        fn(h2, dry)
    trace = simulate(h2, stimulus, list(rec.values()))
    res = []
    for t, fn in checks:
        res.append(z3.is_true(z3.simplify(fn(h2, SimFrame(trace[t])))))
    return all(res), res


def step_stimulus(ts, frames, model):
    return model_stimulus(ts, frames, model)


def analyse(cfg, h, stats, out, pid, relation="full"):
    """Reachability + owner map.  Returns (reach, owner dict state->i) or None after recording a violation."""
    owns = RELATIONS[relation]
    ts = h.translate()
    make = maker(cfg)
    R = Reach(h, stats)
    N = cfg["N"]
    owner = {}
    from ..e1 import cfg_key
    for r in R.states:
        passing, witness = [], {}
        for i in range(N):
            frames, cons = unroll(ts, 1, init="free", tag="O")
            f = frames[0]
            res, m = solve(cons + [state_is(ffvec(ts, f.state), r), z3.Not(owns(h, f, i))], stats, f"owns{i}")
            if res == "unsat":
                passing.append(i)
            else:
                witness[i] = model_stimulus(ts, frames, m)
        if len(passing) == 1:
            owner[r] = passing[0]
            owner.setdefault(("witness", r), witness)
            continue
        if pid != "C08" and not (relation == "ack" and not passing):
            return None           # ownership is C08's subject; C09 cannot proceed without it
        # (C09, reduced relation, NO candidate at all: a reachable state in which nobody is served - reported below)
        # violation: replay each candidate's witness on the simulator
        ok_all = True
        for i, w in witness.items():
            stim = R.path[r] + w
            ok, _ = sim_eval(make, stim, [(len(stim) - 1, lambda hh, fr, i=i: z3.Not(owns(hh, fr, i)))])
            stats.replays += 1
            ok_all = ok_all and ok
        if not ok_all or len(passing) > 1:
            raise Inconclusive(f"ownership counterexample at state {r} does not reproduce (passing={passing})")
        what = (f"C08 no initiator owns the shared bus in reachable arbiter state {list(r)} "
                f"(configuration {cfg_key(cfg)}): every candidate fails the ownership relation for some input") if pid == "C08" else \
               (f"C09 in reachable arbiter state {list(r)} no initiator is served: for every initiator there is an input "
                f"under which it does not receive the target's acknowledge, so ownership cannot pass to a requester "
                f"(configuration {cfg_key(cfg)})")
        out.violations.append({
            "key": f"no-single-owner@{cfg_key(cfg)}", "what": what,
            "query": "exactly-one-owner", "cfg": cfg, "path": R.path[r], "relation": relation,
            "witness": {str(i): w for i, w in witness.items()}, "stimulus": R.path[r], "prefix": 0, "k": 0, "detail": {}})
        from ..bmc import mark_violation
        mark_violation()
        return None
    return R, owner


def replay_violation(v):
    cfg = v["cfg"]
    make = maker(cfg)
    q = v["query"]
    owns = RELATIONS[v.get("relation", "full")]
    if q == "exactly-one-owner":
        oks = []
        for i, w in v["witness"].items():
            stim = v["path"] + w
            ok, _ = sim_eval(make, stim, [(len(stim) - 1, lambda hh, fr, i=int(i): z3.Not(owns(hh, fr, i)))])
            oks.append(ok)
        return all(oks) and len(oks) == cfg["N"]
    if q in ("no-preemption", "next-owner"):
        stim = v["stimulus"]
        i, e = v["owner"], v["expected"]
        t = len(v["path"])
        checks = [(t, lambda hh, fr: owns(hh, fr, i) if False else z3.BoolVal(True)),
                  (t + 1, lambda hh, fr: z3.Not(owns(hh, fr, e)))]
        if q == "no-preemption":
            checks.append((t, lambda hh, fr: busy(hh, fr, i)))
        else:
            checks.append((t, lambda hh, fr: z3.Not(busy(hh, fr, i))))
        ok, _ = sim_eval(make, stim, checks)
        return ok
    if q == "starvation-lasso":
        stim = v["stimulus"]
        j = v["victim"]
        t0 = len(v["path"])
        checks = []
        for t in range(t0, len(stim)):
            checks.append((t, lambda hh, fr: z3.And(is1(fr.sig(hh.intrs[j].cyc)), is1(fr.sig(hh.arb.bus.ack)),
                                                    fr.sig(hh.intrs[j].ack) == 0)))
        ok, _ = sim_eval(make, stim, checks)
        return ok
    return False
