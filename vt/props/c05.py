"""C05 - CSR multiplexer writes are atomic and reach exactly the addressed register.

E1, same encoding and layout family as C04.  (1) exact write-strobe function from a free state (ALL
input sequences); (2) complete write transaction from a free state => w_data at the strobe is the
concatenation of the chunks written; (3) the sharing limit is unobservable: bounded miter between
shadow_overlaps=None and every other limit, from reset, under conforming read/write streams.
"""
import z3

from . import mux as M
from ..bmc import is1, bv, zext, unroll, solve, model_stimulus, simulate, Inconclusive
from ..e1 import Q, run_queries, replay as _replay, cfg_key

PROPERTY = "C05"
LEVEL = "model_checking"
META = {
    "engine": "E1 nir2smt; free-state windows + reset-rooted two-netlist miter with shared inputs",
    "encoded": ["csr.bus.Multiplexer.__init__", "csr.bus.Multiplexer.elaborate", "csr.bus.Multiplexer._Shadow.add",
                "csr.bus.Multiplexer._Shadow.prepare", "csr.bus.Multiplexer._Shadow.decode_address",
                "csr.bus.Multiplexer._Shadow.encode_offset"],
    "also": 'same family as C04; miter restricted to data width <= 16 and <= 4 chunks',
    "bounds": "layout family of C04; 2 free frames for the ALL-sequence strobe clause; 2n+1 free frames for a "
              "complete n-chunk write (gaps 0..1, longer gaps via C04's lemmas); miter: D = 2*maxchunks+3 frames from "
              "reset, shadow_overlaps None vs {0,1,2,3}",
    "outside": "data of incomplete / chunk-skipping writes (unspecified); miter beyond D frames; layouts refused by "
               "the multiplexer (ValueError) are skipped and counted",
    "assumptions": ["Conf(R) as in C04 for the transaction window", "miter inputs: read stream and write stream each "
                    "start a transaction at a register's first address; reads continue in strictly ascending order, "
                    "writes at consecutive addresses, inside that register; anything at unmapped addresses"],
}


def configs(tier, seed):
    lay = M.layouts(tier, seed, 5)
    out = list(lay)
    seen = set()
    for c in lay:
        base = {k: v for k, v in c.items() if k != "ov"}
        k = cfg_key(base)
        if k in seen:
            continue
        seen.add(k)
        if len(seen) % (3 if tier == "quick" else 2):
            continue
        try:
            mm_, _ = M.build_map(base)
            if base["dw"] > 16 or any(e - s_ > 4 for _, _, (s_, e) in mm_.resources()):
                continue        # the two-netlist miter over 2*chunks+3 frames is decided in reasonable time up to here
        except ValueError:
            continue
        out.append(dict(base, ov=None, miter=[0, 1, 2, 3] if tier == "thorough" else [0, 1]))
    return out


maker = M.maker


def queries(h, cfg):
    dw = cfg["dw"]
    qs = []
    writable = [(r, s, e) for r, s, e in M.reg_ranges(h) if r.element.access.writable()]

    def strobe_exact(h, fr):
        f0, f1 = fr
        bus = h.mux.bus
        W = bus.addr_width + 2
        bad = []
        for r, s, e in M.reg_ranges(h):
            if not r.element.access.writable():
                continue
            exp = z3.And(is1(f0.sig(bus.w_stb)), zext(f0.sig(bus.addr), W) == bv(W, e - 1))
            bad.append(is1(f1.sig(r.element.w_stb)) != exp)
        return [], z3.Or(*bad) if bad else z3.BoolVal(False)
    if writable:
        qs.append(Q("write-strobe-exact", 2, strobe_exact,
                    twin=lambda h, fr: ([], z3.Or(*[is1(fr[1].sig(r.element.w_stb)) for r, s, e in M.reg_ranges(h)
                                                      if r.element.access.writable()]))))
    for R, start, end in writable:
        n = end - start
        width = R.element.width
        if width == 0:
            continue
        K = 2 * n + 1

        def wdata(h, fr, start=start, end=end, n=n, width=width):
            idx = [i for i, (r, s, e) in enumerate(M.reg_ranges(h)) if s == start][0]
            R = h.regs[idx]
            bus = h.mux.bus
            W = bus.addr_width + 2
            assume = M.conf_single(h, fr[:-1], R, start, end)
            D = [bv(dw, 0)] * n
            have = [z3.BoolVal(False)] * n
            bad = []
            for t in range(len(fr) - 1):
                f = fr[t]
                A = zext(f.sig(bus.addr), W)
                ws = is1(f.sig(bus.w_stb))
                wd = f.sig(bus.w_data)
                for j in range(n):
                    hit = z3.And(ws, A == bv(W, start + j))
                    D[j] = z3.If(hit, wd, D[j])
                    have[j] = z3.Or(have[j], hit)
                cat = D[0] if n == 1 else z3.Concat(*reversed(D))
                exp = z3.Extract(width - 1, 0, cat)
                complete = z3.And(ws, A == bv(W, end - 1), *have)
                bad.append(z3.And(complete, fr[t + 1].sig(R.element.w_data) != exp))
            return assume, z3.Or(*bad), z3.And(*have)

        def build(h, fr, wdata=wdata):
            a, b, _ = wdata(h, fr)
            return a, b

        def twin(h, fr, wdata=wdata):
            a, _, allhave = wdata(h, fr)
            return a, allhave
        qs.append(Q(f"complete-write-data-r{start}", K, build, twin=twin, max_prefix=4))
    return qs


# ---------------------------------------------------------------------------------------------------
def conf_seq(h, frames):
    """Conforming read stream and write stream over a reset-rooted run (several transactions)."""
    bus = h.mux.bus
    W = bus.addr_width + 2
    cons = []
    for kind in ("r", "w"):
        regs = [(r, s, e) for r, s, e in M.reg_ranges(h)
                if (r.element.access.readable() if kind == "r" else r.element.access.writable())]
        valid = z3.BoolVal(False)
        cs, ce, last = bv(W, 0), bv(W, 0), bv(W, 0)
        for f in frames:
            A = zext(f.sig(bus.addr), W)
            stb = is1(f.sig(bus.r_stb if kind == "r" else bus.w_stb))
            hits = z3.Or(*[z3.And(z3.UGE(A, bv(W, s)), z3.ULT(A, bv(W, e))) for r, s, e in regs]) if regs else z3.BoolVal(False)
            begins = z3.Or(*[A == bv(W, s) for r, s, e in regs]) if regs else z3.BoolVal(False)
            if kind == "r":
                cont = z3.And(valid, z3.UGE(A, cs), z3.ULT(A, ce), z3.UGT(A, last))
            else:       # a write transaction covers its chunks consecutively (a skipped chunk has no specified data)
                cont = z3.And(valid, z3.UGE(A, cs), z3.ULT(A, ce), A == last + 1)
            cons.append(z3.Implies(z3.And(stb, hits), z3.Or(begins, cont)))
            act = z3.And(stb, hits)
            ncs, nce = cs, ce
            for r, s, e in regs:
                ncs = z3.If(z3.And(act, A == bv(W, s)), bv(W, s), ncs)
                nce = z3.If(z3.And(act, A == bv(W, s)), bv(W, e), nce)
            cs, ce = ncs, nce
            last = z3.If(act, A, last)
            valid = z3.Or(valid, act)
    return cons


def _observables(h, f, nxt=None):
    """Named observable outputs of one frame (w_data is only meaningful while w_stb is high)."""
    obs = [("bus.r_data", f.sig(h.mux.bus.r_data))]
    for i, r in enumerate(h.regs):
        el = r.element
        if el.access.readable():
            obs.append((f"r{i}.r_stb", f.sig(el.r_stb)))
        if el.access.writable():
            ws = f.sig(el.w_stb)
            obs.append((f"r{i}.w_stb", ws))
            if el.width:
                obs.append((f"r{i}.w_data@stb", z3.If(ws == 1, f.sig(el.w_data), bv(el.width, 0))))
    return obs


def miter(cfg, out, stats):
    base = dict(cfg)
    limits = base.pop("miter")
    try:
        ha = M.maker(dict(base, ov=None))()
        tsa = ha.translate()
    except ValueError as e:
        out.skipped = str(e)
        return
    maxchunks = max(e - s for _, s, e in M.reg_ranges(ha))
    D = 2 * maxchunks + 3
    for ov in limits:
        try:
            hb = M.maker(dict(base, ov=ov))()
            tsb = hb.translate()
        except ValueError:
            stats.notes.append("a sharing limit was refused for a layout (ValueError) - not compared")
            continue
        if tsa.inputs != tsb.inputs:
            raise Inconclusive("miter: the two netlists do not expose identical input ports")
        fa, ca = unroll(tsa, D, init="reset", tag="m")
        fb, cb = unroll(tsb, D, init="reset", tag="m")      # same tag => shared input variables
        assume = ca + conf_seq(ha, fa)
        diffs = []
        for t in range(D):
            for (na, va), (nb, vb) in zip(_observables(ha, fa[t]), _observables(hb, fb[t])):
                diffs.append(va != vb)
        r, m = solve(assume + [z3.Or(*diffs)], stats, f"miter-ov{ov}")
        if len(stats.samples) < 4:
            stats.samples.append({"cfg": base, "query": f"miter None vs {ov}", "frames": D, "verdict": r})
        if r == "sat":
            stim = model_stimulus(tsa, fa, m)
            v = {"key": f"sharing-limit-observable@{cfg_key(base)}:{ov}",
                 "what": f"C05 shadow_overlaps={ov} behaves differently from shadow_overlaps=None under a conforming "
                         f"access sequence ({D} cycles from reset) for layout {cfg_key(base)}",
                 "query": "miter", "cfg": cfg, "ov": ov, "stimulus": stim, "prefix": 0, "k": D, "detail": {}}
            stats.replays += 1
            if not replay_miter(v):
                raise Inconclusive("miter counterexample does not reproduce on the simulator")
            out.violations.append(v)
            from ..bmc import mark_violation
            mark_violation()
            return
    # vacuity twin: the conforming streams allow a complete multi-chunk write
    stats.twins += 1
    fa, ca = unroll(tsa, D, init="reset", tag="m")
    ev = z3.Or(*[is1(fa[t].sig(r.element.w_stb)) for t in range(D) for r in ha.regs if r.element.access.writable()]
               + [is1(fa[t].sig(r.element.r_stb)) for t in range(D) for r in ha.regs if r.element.access.readable()]
               + [fa[t].sig(ha.mux.bus.r_data) != 0 for t in range(D)])
    rt, _ = solve(ca + conf_seq(ha, fa) + [ev], None, "miter-twin", want_model=False)
    if rt != "sat":
        raise Inconclusive("miter harness vacuous")
    stats.twins_sat += 1


def replay_miter(v):
    from ..bmc import SimFrame, _TraceFrame
    base = dict(v["cfg"])
    base.pop("miter", None)
    traces = []
    for ov in (None, v["ov"]):
        h = M.maker(dict(base, ov=ov))()
        rec = {}
        _observables(h, _TraceFrame(rec))
        tr = simulate(h, v["stimulus"], list(rec.values()))
        vals = []
        for row in tr:
            vals.append([z3.simplify(x).as_long() for _, x in _observables(h, SimFrame(row))])
        traces.append(vals)
    return traces[0] != traces[1]


def check(cfg, out, stats):
    import sys
    if "miter" in cfg:
        return miter(cfg, out, stats)
    try:
        h = maker(cfg)()
        h.translate()
    except ValueError as e:
        out.skipped = f"layout refused: {e}"
        return
    run_queries(sys.modules[__name__], cfg, out, stats, cosim_cycles=0)


def replay(v):
    import sys
    if v["query"] == "miter":
        return replay_miter(v)
    return _replay(sys.modules[__name__], v)
