"""C18 - names in a memory map are unique and prefix-free; conflicts are refused.

E2: the real _Namespace.is_available/assign/extend, MemoryMap.Name and the namespace branches of
add_resource/add_window run on names whose parts are symbolic choices from the alphabet
{"a","b","ab","0",0,1} (shared prefixes, string '0' versus integer 0, lexical collisions).
Oracle: two names conflict iff they are equal on their common prefix.
"""
import itertools
import random

import z3
from amaranth.lib import wiring

import amaranth_soc.memory as memory
from amaranth_soc.memory import MemoryMap

from ..symex import SymPart, SymBool, _mkb, b_and, b_or, b_not, PathAbort, ALPHA
from ..e2 import run_harness, replay_concrete

PROPERTY = "C18"
LEVEL = "model_checking"
META = {
    "engine": "E2 symex with symbolic name parts (z3 index into a 6-symbol alphabet)",
    "encoded": ["memory._Namespace.is_available", "memory._Namespace.assign", "memory._Namespace.extend",
                "memory._Namespace.names", "memory.MemoryMap.Name.__new__", "memory.MemoryMap.add_resource",
                "memory.MemoryMap.add_window", "memory.MemoryMap.all_resources"],
    "also": "alphabet {'a','b','ab','0',0,300} (300 is not cached by CPython; concrete replays build fresh objects); the same Name object re-used; names handed back from resources(); anonymous windows nested two deep; refused windows must stay usable; anonymous windows also mapped into a second parent with names of its own; named windows nested two deep with equal leaf names; anonymous windows holding named windows; the plain-string shorthand for one-part names; one resource object under one name in two anonymously mapped windows; per-call alignment on resources with the placement cursor part of 'a refusal changes nothing'; internal TypeErrors on well-formed names are violations; heavy shapes split over processes by the first part",
    "bounds": "up to 3 names (thorough 4) of length 1-2 (pairs up to length 3) over the alphabet "
              "{'a','b','ab','0',0,1}; added as resources, named windows, or resources inside an anonymous window "
              "(absorbed names); an interleaved add that fails for a non-name reason (out-of-bounds address) followed "
              "by a retry; every order",
    "outside": "names longer than 3 parts, more than 4 names, alphabets beyond the 6 symbols (the code compares parts "
               "only by == and by str() order)",
    "assumptions": ["isinstance/range/int rebound for amaranth_soc.memory; sorted/set/dict are the real implementations and call "
                    "back into the proxies' __eq__/__lt__/__hash__ (hash constant 0)"],
    "rule": "one evaluation = one solver query; distinct_nontrivial = feasible paths passing the preconditions",
}


class Res(wiring.Component):
    def __init__(self):
        super().__init__({})


def configs(tier, seed):
    rnd = random.Random(seed + 1818)
    out = []
    # op = [kind, name length(s)]: "r" resource, "w" named window (with one inner resource of length l2),
    # "a" anonymous window holding resources with the given name lengths, "x" failing add then nothing
    two = [[["r", 1], ["r", 1]], [["r", 1], ["r", 2]], [["r", 2], ["r", 1]], [["r", 2], ["r", 2]],
           [["r", 3], ["r", 1]], [["r", 1], ["r", 3]], [["r", 3], ["r", 2]], [["r", 2], ["r", 3]],
           [["w", 1], ["r", 2]], [["r", 2], ["w", 1]], [["w", 2], ["w", 1]],
           [["a", 1, 2], ["r", 1]], [["r", 2], ["a", 1, 1]], [["a", 2], ["a", 1]], [["r", 1], ["a", 2, 1]],
           [["xw", 1], ["w", 1]], [["xa", 2], ["r", 1]], [["xw", 2], ["r", 1]], [["xa", 1], ["w", 2]]]
    three = [[["r", 1], ["r", 1], ["r", 1]], [["r", 2], ["r", 1], ["r", 2]], [["r", 1], ["r", 2], ["r", 2]],
             [["r", 2], ["r", 2], ["r", 1]], [["w", 1], ["r", 2], ["r", 1]], [["r", 2], ["a", 1], ["r", 1]],
             [["a", 2], ["r", 1], ["w", 1]], [["r", 1], ["xw", 1], ["w", 1]], [["a", 1], ["xa", 1], ["r", 1]],
             [["r", 2], ["a", 2], ["r", 2]],
             # the SAME MemoryMap.Name object handed in twice / a Name taken from resources() handed back
             [["aa", 1], ["r", 1]], [["aa", 2], ["r", 1]], [["r", 1], ["aa", 1, 1]],
             [["rn", 1], ["same"]], [["rn", 2], ["r", 1], ["same"]], [["a", 1], ["back"]], [["a", 2, 1], ["r", 1], ["back"]]]
    # "share": every anonymous window accepted by the root is afterwards also mapped, without a name, into a SECOND
    # parent that already holds one name of its own (a peripheral block shared by two bus masters' maps);
    # "ww": a named window holding two named windows that each hold a resource called ("leaf",)
    shared = [[["a", 1], ["r", 1], ["share", 1]], [["a", 1], ["r", 2], ["share", 1]], [["a", 2], ["r", 1], ["share", 2]],
              [["r", 1], ["a", 1], ["share", 1]], [["a", 1], ["w", 1], ["share", 1]], [["aa", 1], ["r", 1], ["share", 1]]]
    nested = [[["w", 1], ["a", 1]], [["w", 1], ["a", 1, 1]], [["a", 1], ["w", 1], ["a", 1]],
              [["rs"], ["r", 1]], [["rs"], ["r", 2]], [["r", 1], ["rs"]], [["r", 2], ["rs"], ["r", 1]], [["a", 1], ["rs"]],
              [["dup", 1]], [["r", 1], ["dup", 1]], [["dup", 2], ["r", 1]],
              [["aw", 1], ["r", 1]], [["aw", 1], ["r", 2]], [["aw", 2], ["r", 1]], [["r", 1], ["aw", 1, 1]], [["aw", 1], ["w", 1]],
              [["ww", 1], ["r", 1]], [["ww", 2], ["r", 2]], [["r", 1], ["ww", 1]], [["ww", 1], ["ww", 1]]]
    for s in two + three + shared + nested:
        if sum(x for op in s for x in op[1:] if isinstance(x, int)) >= 5 and len(s) >= 3:
            for k in range(len(ALPHA)):
                out.append({"ops": s, "pin0": k})
        else:
            out.append({"ops": s})
    if tier == "thorough":
        out.append({"ops": [["r", 2], ["r", 2], ["r", 2]]})
        out.append({"ops": [["a", 2], ["a", 2], ["r", 2]]})
        out.append({"ops": [["r", 2], ["a", 2, 1], ["r", 2]]})
        out.append({"ops": [["a", 1, 1], ["a", 1, 1], ["r", 2]]})
        out.append({"ops": [["w", 2], ["a", 2], ["w", 1]]})
        out.append({"ops": [["r", 1], ["r", 1], ["r", 1], ["r", 1]]})
        out.append({"ops": [["r", 2], ["r", 1], ["r", 1], ["r", 2]]})
        out.append({"ops": [["r", 3], ["r", 3]]})
        for _ in range(12):
            ops = []
            for i in range(3):
                k = rnd.choice(["r", "r", "w", "a", "xw", "xa"])
                ops.append([k, rnd.randint(1, 2)] + ([rnd.randint(1, 2)] if k == "a" and rnd.random() < 0.4 else []))
            out.append({"ops": ops})
    return out


def _conflict(n1, n2):
    k = min(len(n1), len(n2))
    return b_and(*[n1[i] == n2[i] for i in range(k)])


def _neq_names(n1, n2):
    if len(n1) != len(n2):
        return True
    return b_or(*[n1[i] != n2[i] for i in range(len(n1))])


def harness_for(cfg):
    ops = cfg["ops"]

    def h(E):
        ctr = [0]

        def name(L):
            ctr[0] += 1
            parts = tuple(E.part(f"n{ctr[0]}_{i}") for i in range(L))
            if ctr[0] == 1 and cfg.get("pin0") is not None:
                # case split over the first part of the first name (spreads a heavy shape over processes)
                if E.symbolic:
                    E.assume(parts[0] == SymPart(__import__("z3").IntVal(cfg["pin0"])))
                else:
                    E.assume(parts[0] == ALPHA[cfg["pin0"]] and type(parts[0]) is type(ALPHA[cfg["pin0"]]))
            return parts
        root = MemoryMap(addr_width=8, data_width=8)
        visible = []          # names visible in root

        def counts():
            # (align_to(0) reads the placement cursor without moving it)
            return (len(list(root.resources())), len(list(root.windows())), len(list(root.all_resources())), root.align_to(0))
        last_name_obj = [None]
        anon = []             # (window map, its own names) for anonymous windows the root accepted
        for op in ops:
            kind, lens = op[0], op[1:]
            before = counts()
            if kind == "share":
                other = MemoryMap(addr_width=8, data_width=8)
                own = name(lens[0])
                other.add_resource(Res(), name=own, size=1)
                vis2 = [own]
                for wmap, wnames in anon:
                    conf2 = b_or(*[_conflict(nm, v) for nm in wnames for v in vis2])
                    try:
                        other.add_window(wmap)
                        E.observe("shared-ok")
                        E.prove(b_not(conf2), "a shared window whose names conflict with the second parent's was accepted")
                        vis2.extend(wnames)
                    except ValueError:
                        E.observe("shared-refused")
                        E.prove(conf2, "a window already mapped elsewhere was refused by a second parent although its own "
                                       "names are free there")
                E.prove(counts() == before, "mapping a window into a second parent changed the first parent")
                continue
            if kind == "dup":
                # the SAME resource object, under the same name, in two maps that are both mapped anonymously
                nm = name(lens[0])
                shared_res = Res()
                subs2 = []
                for _ in range(2):
                    sm = MemoryMap(addr_width=2, data_width=8)
                    sm.add_resource(shared_res, name=nm, size=1)
                    subs2.append(sm)
                conf = b_or(*[_conflict(nm, v) for v in visible])
                try:
                    root.add_window(subs2[0])
                    E.observe("ok")
                    E.prove(b_not(conf), "a window whose (absorbed) names conflict with visible names was accepted")
                    visible.append(nm)
                except ValueError:
                    E.observe("refused")
                    E.prove(conf, "a window with legal names was refused")
                    E.prove(counts() == before, "refusal changed the map")
                    continue
                before2 = counts()
                try:
                    root.add_window(subs2[1])
                    E.observe("dup-ok")
                    E.prove(False, "a second anonymous window carrying a name that is already visible was accepted (same object)")
                except ValueError:
                    E.observe("dup-refused")
                    E.prove(counts() == before2, "refusal changed the map")
                continue
            if kind == "ww":
                outer = MemoryMap(addr_width=4, data_width=8)
                wname = name(lens[0])
                i1, i2 = name(1), name(1)
                E.assume(b_not(_conflict(i1, i2)))
                for inm in (i1, i2):
                    leafmap = MemoryMap(addr_width=1, data_width=8)
                    leafmap.add_resource(Res(), name=("leaf",), size=1)
                    outer.add_window(leafmap, name=inm)
                conf = b_or(*[_conflict(wname, v) for v in visible])
                try:
                    root.add_window(outer, name=wname)
                    E.observe("ok")
                    E.prove(b_not(conf), "a window whose name conflicts with visible names was accepted")
                    visible.append(wname)
                except ValueError:
                    E.observe("refused")
                    E.prove(conf, "a window with a legal name was refused")
                    E.prove(counts() == before, "refusal changed the map")
                continue
            if kind in ("same", "back"):
                # re-adding under a name that is already visible must be refused, whatever object carries the name
                if kind == "same":
                    nm_obj = last_name_obj[0]
                else:
                    nm_obj = next((n_ for _, n_, _ in list(root.windows())[0][0].resources()), None) if list(root.windows()) else None
                if nm_obj is None:
                    raise PathAbort()
                try:
                    root.add_resource(Res(), name=nm_obj, size=1)
                    E.observe("ok")
                    E.prove(False, "a name that is already visible was accepted again (same Name object)")
                except ValueError:
                    E.observe("refused")
                    E.prove(counts() == before, "refusal changed the map")
                continue
            if kind == "rs":
                # the plain-string shorthand for a one-part name: name="ab" means ("ab",)
                nm = ("ab",)
                conf = b_or(*[_conflict(nm, v) for v in visible])
                try:
                    root.add_resource(Res(), name="ab", size=1)
                    E.observe("ok")
                    E.prove(b_not(conf), "a name conflicting with a visible name was accepted")
                    visible.append(nm)
                except TypeError:
                    E.prove(False, "a well-formed name makes add_resource fail with an internal TypeError")
                    return
                except ValueError:
                    E.observe("refused")
                    E.prove(conf, "a legal name was refused")
                    E.prove(counts() == before, "refusal changed the map")
                continue
            if kind in ("r", "rn"):
                nm = name(lens[0])
                if kind == "rn":
                    nm = MemoryMap.Name(nm)
                    last_name_obj[0] = nm
                conf = b_or(*[_conflict(nm, v) for v in visible])
                try:
                    # every other resource asks for a coarser alignment than the map's
                    root.add_resource(Res(), name=nm, size=1, alignment=(2 if ctr[0] % 2 else None))
                    E.observe("ok")
                    E.prove(b_not(conf), "a name conflicting with a visible name was accepted")
                    visible.append(nm)
                except TypeError:
                    E.observe("internal-error")
                    E.prove(False, "a well-formed name makes add_resource fail with an internal TypeError")
                    return
                except ValueError:
                    E.observe("refused")
                    E.prove(conf, "a legal name was refused")
                    E.prove(counts() == before, "refusal changed the map")
                continue
            sub = MemoryMap(addr_width=3 if kind in ("aa", "aw") else 2, data_width=8)
            inner = []
            if kind == "aa":
                # an anonymous window inside an anonymous window: the deep names are visible at the top as well
                deep = MemoryMap(addr_width=2, data_width=8)
                for L in lens:
                    nm = name(L)
                    conf_in = b_or(*[_conflict(nm, v) for v in inner])
                    try:
                        deep.add_resource(Res(), name=nm, size=1)
                        E.prove(b_not(conf_in), "a conflicting name was accepted inside a window")
                        inner.append(nm)
                    except ValueError:
                        E.prove(conf_in, "a legal name was refused inside a window")
                sub.add_window(deep)
                wname = None
                new_names = list(inner)
            elif kind == "aw":
                # an anonymous window that holds a NAMED window (and a resource): both names become visible in the parent
                inner_named = MemoryMap(addr_width=1, data_width=8)
                inner_named.add_resource(Res(), name=("leaf",), size=1)
                nm_w = name(lens[0])
                sub.add_window(inner_named, name=nm_w)
                inner.append(nm_w)
                if len(lens) > 1:
                    nm_r = name(lens[1])
                    E.assume(b_not(_conflict(nm_r, nm_w)))
                    sub.add_resource(Res(), name=nm_r, size=1)
                    inner.append(nm_r)
                wname = None
                new_names = list(inner)
            elif kind in ("w", "xw"):
                wname = name(lens[0])
                # (the resource inside a named window carries an alphabet name: invisible outside the window, so a
                #  resource of the same name elsewhere - e.g. in an anonymous sibling window - is legal)
                sub.add_resource(Res(), name=("a",), size=1)
                new_names = [wname]
            else:
                for L in lens:
                    nm = name(L)
                    conf_in = b_or(*[_conflict(nm, v) for v in inner])
                    try:
                        sub.add_resource(Res(), name=nm, size=1)
                        E.prove(b_not(conf_in), "a conflicting name was accepted inside a window")
                        inner.append(nm)
                    except ValueError:
                        E.prove(conf_in, "a legal name was refused inside a window")
                wname = None
                new_names = list(inner)
            conf = b_or(*[_conflict(nm, v) for nm in new_names for v in visible])
            if kind in ("xw", "xa"):
                # the add fails for a reason unrelated to names (address out of bounds): nothing may change,
                # in particular no name may stay reserved
                try:
                    root.add_window(sub, name=wname, addr=1 << 8)
                    E.prove(False, "out-of-bounds window was accepted")
                except ValueError:
                    E.observe("refused-addr")
                E.prove(counts() == before, "refusal changed the map")
                # retry with a fresh map carrying the same names at a legal address
                sub2 = MemoryMap(addr_width=2, data_width=8)
                if wname is not None:
                    sub2.add_resource(Res(), name=("a",), size=1)
                else:
                    for nm in inner:
                        sub2.add_resource(Res(), name=nm, size=1)
                sub = sub2
            try:
                root.add_window(sub, name=wname)
                E.observe("ok")
                E.prove(b_not(conf), "a window whose (absorbed) names conflict with visible names was accepted")
                visible.extend(new_names)
                if wname is None:
                    anon.append((sub, list(new_names)))
                # whatever its kind, a map that has been added as a window takes no further names (they would bypass
                # the parent's checks)
                try:
                    sub.add_resource(Res(), name=("zz-late",), size=1)
                    E.prove(False, "a map that was added as a window still accepts new names")
                except ValueError:
                    pass
            except TypeError:
                E.observe("internal-error")
                E.prove(False, "a well-formed window name makes add_window fail with an internal TypeError")
                return
            except ValueError:
                E.observe("refused")
                E.prove(conf, "a window with legal names was refused")
                E.prove(counts() == before, "refusal changed the map")
                # ... nor the refused window itself: it is still an ordinary, extensible map
                try:
                    sub.add_resource(Res(), name=("zz-after-refusal",), size=1)
                except ValueError:
                    E.prove(False, "a refused window was left frozen / changed by the refused call")
        # paths of all_resources() pairwise distinct
        paths = [tuple(p for nm in info.path for p in nm) for info in root.all_resources()]
        for p, q in itertools.combinations(paths, 2):
            E.prove(_neq_names(p, q), "two resources are reported under the same path")
    return h


def check(cfg, out, stats):
    out.extra = {}
    run_harness(PROPERTY, cfg, harness_for(cfg), [memory], out, stats, label=str(cfg["ops"]), max_paths=200_000)


def replay(v):
    return replay_concrete(harness_for(v["cfg"]), v)
