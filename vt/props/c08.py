"""C08 - Wishbone arbiter: one owner at a time, isolated, never pre-empted mid-cycle.

E1: exact reachable state set (Q-reach), observational owner per state (forall inputs, decided by
z3 per candidate), and non-pre-emption as a one-step query from every reachable state.
"""
import z3

from . import arb
from .arb import configs, maker, owns, busy, ffvec, state_is, analyse, replay_violation
from ..bmc import unroll, solve, model_stimulus, Inconclusive, cosim
from ..e1 import cfg_key

PROPERTY = "C08"
LEVEL = "model_checking"
META = {
    "engine": "E1 nir2smt; exact reachability by all-SAT image iteration over the arbiter's flip-flops",
    "encoded": ["wishbone.bus.Arbiter.__init__", "wishbone.bus.Arbiter.add", "wishbone.bus.Arbiter.elaborate",
                "wishbone.bus.Interface", "wishbone.bus.Signature"],
    "also": 'all 20 legal (data width, arbiter granularity, initiator granularity) triples; N = 11 (thorough 16); refused add() of an initiator lacking err/rty kept as an arbitrary interface; Feature members; arbiter elaborated once and extended; warm-up instance (also in replay)',
    "bounds": "N = 1..4 initiators (thorough 1..5), data width 8-32 (thorough -64), hand-picked + seeded feature / "
              "granularity mixes (thorough: every arbiter feature subset for N=2,3); every reachable state x every "
              "input valuation (1-2 frames from each reachable state)",
    "outside": "behaviour under rst; N > 5; dat_r of non-owners (nothing asserted)",
    "assumptions": ["ownership is observational: Owns_i = bus carries i's request, i sees the target's responses and "
                    "dat_r, all others see ack=err=rty=0 and stall=1", "single clock domain, rst low"],
}


def check(cfg, out, stats):
    make = maker(cfg)
    make().translate()       # warm-up instance: no process-global state may leak into the next elaboration
    h = make()
    ts = h.translate()
    res = analyse(cfg, h, stats, out, "C08")
    out.extra = {}
    if res is None:
        return
    R, owner = res
    out.extra = {"states": len(R.states), "transitions": R.transitions}
    if len(stats.samples) < 3:
        stats.samples.append({"cfg": cfg, "reachable_states": [list(r) for r in R.states],
                              "owner_of_state": {str(list(r)): owner[r] for r in R.states}})
    N = cfg["N"]
    for r in R.states:
        i = owner[r]
        frames, cons = unroll(ts, 2, init="free", tag="P")
        f0, f1 = frames
        nxt = ffvec(ts, f1.state)
        same_owner = z3.Or(*[state_is(nxt, s) for s in R.states if owner[s] == i])
        q = cons + [state_is(ffvec(ts, f0.state), r), busy(h, f0, i), z3.Not(same_owner)]
        rr, m = solve(q, stats, "no-preemption")
        # vacuity twin: the owner can be busy at all
        stats.twins += 1
        rt, _ = solve(cons + [state_is(ffvec(ts, f0.state), r), busy(h, f0, i)], None, "twin", want_model=False)
        if rt != "sat":
            raise Inconclusive("owner can never be busy: vacuous")
        stats.twins_sat += 1
        if rr == "sat":
            s2 = tuple(m.eval(a, model_completion=True).as_long() for a in nxt)
            if s2 not in owner:
                raise Inconclusive(f"next state {s2} outside the reachable set")
            wit = owner[("witness", s2)].get(i)
            stim = R.path[r] + model_stimulus(ts, frames[:1], m) + wit
            v = {"key": f"no-preemption@{cfg_key(cfg)}",
                 "what": f"C08 ownership passes from initiator {i} to {owner[s2]} while {i}'s bus cycle is in "
                         f"progress (configuration {cfg_key(cfg)}, state {list(r)})",
                 "query": "no-preemption", "cfg": cfg, "path": R.path[r], "stimulus": stim, "owner": i,
                 "expected": i, "prefix": 0, "k": 0, "detail": {}}
            stats.replays += 1
            if not replay_violation(v):
                raise Inconclusive("pre-emption counterexample does not reproduce on the simulator")
            out.violations.append(v)
            from ..bmc import mark_violation
            mark_violation()
            break
    cosim(make, cycles=24, seed=len(cfg_key(cfg)), stats=stats)


def replay(v):
    return replay_violation(v)
