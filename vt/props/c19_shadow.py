"""C19 part 2 - termination of shadow balancing, E2 in bit-vector mode.

The real Multiplexer._Shadow.add / prepare / decode_address run on up to 3 registers with concrete
sizes and SYMBOLIC start addresses (16-bit vectors), for every sharing limit.  A wrapper counts
re-entries of prepare(); the obligation is "returns, or raises ValueError, within addr_width + 3
doublings".  White-box (private class): if the class or its methods are missing, the sub-check reports
itself as not applicable to this tree instead of failing.
"""
import amaranth_soc.csr.bus as busmod

from ..symex import SymRange, PathAbort, b_and
from ..e2 import run_harness, replay_concrete

PROPERTY = "C19"
AW = 4


class NonTermination(Exception):
    pass


def applicable():
    sh = getattr(busmod.Multiplexer, "_Shadow", None)
    return sh is not None and all(hasattr(sh, m) for m in ("add", "prepare", "decode_address"))


def harness_for(cfg):
    sizes, ov = cfg["sizes"], cfg["ov"]
    limit = AW + 3

    def h(E):
        Shadow = busmod.Multiplexer._Shadow
        orig = Shadow.prepare
        depth = [0]

        def guarded(self):
            depth[0] += 1
            if depth[0] > limit:
                raise NonTermination()
            return orig(self)
        Shadow.prepare = guarded
        try:
            sh = Shadow(8, ov, name="r_shadow")
            prev_stop = 0
            for i, n in enumerate(sizes):
                s = E.bv(f"s{i}", 0, (1 << AW) - n)
                E.assume(s >= prev_stop)
                prev_stop = s + n
                sh.add(SymRange(s, s + n) if E.symbolic else range(s, s + n))
            try:
                sh.prepare()
                E.observe("balanced", sh.size)
            except NonTermination:
                E.observe("nonterm")
                E.prove(False, "shadow balancing does not terminate (neither returns nor raises ValueError)")
            except RecursionError:
                E.observe("nonterm")
                E.prove(False, "shadow balancing does not terminate (neither returns nor raises ValueError)")
            except ValueError:
                E.observe("refused")
        finally:
            Shadow.prepare = orig
    return h


def configs(tier):
    out = []
    size_sets = [(1, 2), (1, 1, 2), (2, 1, 3), (2, 2, 2), (1, 2, 4)] if tier == "quick" else \
        [(1, 2), (2, 1), (1, 3), (3, 2), (1, 1, 2), (2, 1, 3), (2, 2, 2), (1, 2, 4), (3, 1, 2), (4, 2, 1), (1, 3, 3), (2, 3, 4)]
    for sizes in size_sets:
        for ov in (None, 0, 1, 2):
            out.append({"shadow": True, "sizes": list(sizes), "ov": ov})
    return out


def check_shadow(cfg, out, stats):
    out.extra = {}
    if not applicable():
        out.skipped = "Multiplexer._Shadow not present in this tree: termination sub-check not applicable"
        return
    run_harness(PROPERTY, cfg, harness_for(cfg), [busmod], out, stats, label="shadow-balancing-termination",
                max_paths=100_000)


def replay_shadow(v):
    return replay_concrete(harness_for(v["cfg"]), v)
