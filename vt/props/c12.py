"""C12 - field actions keep, set and clear storage exactly as documented, for all time.

E1: each action class is elaborated for a concrete shape/init; the exact next-state and output
functions are proved from a FREE state over two frames (Q-step), the reset value over one frame from
reset.  Exact step + initial state = bisimulation with the documented automaton => all histories.
"""
import random

import z3
from amaranth import unsigned, signed
from amaranth.lib import enum as am_enum

from amaranth_soc.csr import action

from ..bmc import Harness, flat_ports, is1, bv
from ..e1 import Q, run_queries, replay as _replay

PROPERTY = "C12"
LEVEL = "model_checking"
META = {
    "engine": "E1 nir2smt (NIR netlist -> z3 QF_BV), fresh solver per query",
    "encoded": ["csr.action.R.elaborate", "csr.action.W.elaborate", "csr.action.RW.elaborate",
                "csr.action.RW1C.elaborate", "csr.action.RW1S.elaborate", "csr.action._Reserved.elaborate",
                "csr.reg.FieldAction.__init__", "csr.reg.FieldPort.Signature"],
    "also": 'widths 33/64; shapes given as range objects (unsigned and signed) and as a flag enum; each storage action also inside a register between reserved fields (incl. signed / enum shapes), read through the element port',
    "bounds": "2 frames from an arbitrary (free) state + 1 frame from reset per configuration; widths 1-8, 33, 64, 65, 130 (thorough up to 257) [round 13; originally:] widths 1-8,16 "
              "(thorough: 1-12,16,24,32) x unsigned/signed/enum x 4 init values",
    "outside": "behaviour while rst is asserted; shapes wider than 32 bits",
    "assumptions": ["single clock domain sync, rst held low", "Amaranth elaborator/NIR trusted as front end",
                    "z3 (cvc5 cross-check on a sample in the thorough tier)"],
}


class E3(am_enum.Enum, shape=unsigned(3)):
    A = 0
    B = 5
    C = 7


class E2s(am_enum.Enum, shape=signed(2)):
    A = -2
    Z = 0
    B = 1


class F3(am_enum.IntFlag, shape=unsigned(3)):
    RX = 1
    TX = 2
    ERR = 4


# shape-castable objects other than Shape instances and ints: ranges (unsigned and signed) and a flag enum
SHAPES = {"e3": E3, "e2s": E2s, "rng5": range(5), "rngs": range(-3, 4), "f3": F3}


def _shape(desc):
    kind, w = desc
    if kind == "u":
        return unsigned(w)
    if kind == "s":
        return signed(w)
    return SHAPES[kind]


def _width(desc):
    kind, w = desc
    return {"e3": 3, "e2s": 2, "rng5": 3, "rngs": 3, "f3": 3}.get(kind, w)


def configs(tier, seed):
    rnd = random.Random(seed)
    widths = [1, 2, 3, 5, 8, 33, 64, 65, 130] if tier == "quick" else [1, 2, 3, 4, 5, 6, 7, 8, 9, 12, 16, 24, 32, 33, 64, 65, 72, 128, 130, 257]
    shapes = [("u", w) for w in widths] + [("s", w) for w in widths[:4] + widths[-1:]] + [("e3", 0), ("e2s", 0)] + \
        [("rng5", 0), ("rngs", 0), ("f3", 0)]
    out = []
    for sh in shapes:
        w = _width(sh)
        full = (1 << w) - 1
        inits = sorted({0, full, int("01" * 32, 2) & full, rnd.getrandbits(w)})
        if tier == "quick":
            inits = inits[:3]
        if sh[0] == "e3":
            inits = [0, 5, 7]
        if sh[0] == "e2s":
            inits = [0, 1, 2]
        if sh[0] in ("rng5", "f3"):
            inits = [0, 3, 4]
        if sh[0] == "rngs":
            inits = [0, 3, 5]          # (5 = -3 as a 3-bit pattern)
        for cls in ("RW", "RW1C", "RW1S"):
            if sh[0].startswith("e") and cls != "RW":
                continue      # bitwise set/clear actions refuse enum shapes with a TypeError at elaboration
            for init in inits:
                out.append({"cls": cls, "shape": list(sh), "init": init})
        for cls in ("R", "W", "ResRAW0", "ResRAWL", "ResR0WA", "ResR0W0"):
            out.append({"cls": cls, "shape": list(sh), "init": None})
    # "a field's data output always equals what a bus read of it returns" / "reserved fields influence nothing":
    # the action placed in a register between a reserved field and another field, read through the element port
    for sh in [x for x in shapes if _width(x) <= 9][:6] + [x for x in shapes if x[0] == "s"][:4] + [("e3", 0), ("e2s", 0)]:
        for cls in ("RW", "RW1C", "RW1S"):
            if sh[0].startswith("e") and cls != "RW":
                continue
            for res in ("ResRAW0", "ResR0WA"):
                init = {"e3": 5, "e2s": 2}.get(sh[0], ((1 << _width(sh)) - 1) if sh[0] == "s" else (1 if _width(sh) else 0))
                out.append({"cls": cls, "shape": list(sh), "init": init, "inreg": res})
    # the action behind a heterogeneous LIST of fields (narrow element first), and zero-width R / W fields whose only
    # content is their strobe, inside a register
    for cls in ("RW", "RW1C", "RW1S"):
        for sh in (("u", 4), ("u", 1), ("s", 3)):
            out.append({"cls": cls, "shape": list(sh), "init": 1, "inreg": "ResRAW0", "layout": "list"})
    for w in (0, 1, 5):
        out.append({"cls": "RW", "shape": ["u", w], "init": 0, "inreg": "ResRAW0", "layout": "strobes"})
    return out


def _to_init(desc, init):
    """init as an int constant valid for the shape (signed / enum shapes take signed values)."""
    kind, w = desc
    w = _width(desc)
    if kind in ("s", "e2s", "rngs") and init >= (1 << (w - 1)):
        return init - (1 << w)
    return init


def _inreg_maker(cfg):
    from amaranth_soc import csr

    def make():
        sh = _shape(cfg["shape"])
        if cfg.get("layout") == "list":
            # [2-bit, 6-bit] list (lo = its second element: 3 bits would not fit the first), then x, then hi
            reg = csr.Register({"pre": [csr.Field(action.RW, 2), csr.Field(action.RW, 6)],
                                "x": csr.Field(getattr(action, cfg["cls"]), sh, init=_to_init(cfg["shape"], cfg["init"])),
                                "hi": csr.Field(action.RW, 4)}, access="rw")
        elif cfg.get("layout") == "strobes":
            reg = csr.Register({"kick": csr.Field(action.W, sh), "pop": csr.Field(action.R, sh),
                                "hi": csr.Field(action.RW, 4)}, access="rw")
        else:
            reg = csr.Register({"lo": csr.Field(action.RW, 3), "res": csr.Field(getattr(action, cfg["inreg"]), 2),
                                "x": csr.Field(getattr(action, cfg["cls"]), sh, init=_to_init(cfg["shape"], cfg["init"])),
                                "res2": csr.Field(getattr(action, cfg["inreg"]), 1), "hi": csr.Field(action.RW, 4)}, access="rw")
        from ..bmc import Ports, raw
        from amaranth.lib.wiring import In
        ports = Ports()
        for path, member, s in reg.signature.flatten(reg):
            s = raw(s)
            ports.append(s)
            if path[-1] in ("r_stb", "w_stb", "w_data"):
                ports.env.add(id(s))
        fas = {"list": lambda: [reg.f.pre[0], reg.f.pre[1], reg.f.x, reg.f.hi],
               "strobes": lambda: [reg.f.kick, reg.f.pop, reg.f.hi]}.get(cfg.get("layout"), lambda: [reg.f.lo, reg.f.x, reg.f.hi])()
        for fa in fas:
            for path, member, s in fa.signature.flatten(fa):
                s = raw(s)
                if any(s is p for p in ports):
                    continue
                ports.append(s)
                if path[0] != "port" and member.flow == In:
                    ports.env.add(id(s))
        return Harness(reg, ports, reg=reg)
    return make


def _inreg_queries(h, cfg):
    w = _width(cfg["shape"])
    lo_x = 3 + 2
    if cfg.get("layout") == "list":
        def readback_list(h, fr):
            f = fr[0]
            reg = h.reg
            rd = f.sig(reg.element.r_data)
            if rd.size() != 8 + w + 4:
                return [], z3.BoolVal(True)        # the element is not as wide as the sum of its fields
            bad = [z3.Extract(1, 0, rd) != f.sig(reg.f.pre[0].data), z3.Extract(7, 2, rd) != f.sig(reg.f.pre[1].data),
                   z3.Extract(8 + w - 1, 8, rd) != f.sig(reg.f.x.data),
                   z3.Extract(8 + w + 3, 8 + w, rd) != f.sig(reg.f.hi.data), bv(32, rd.size()) != bv(32, 8 + w + 4)]
            return [], z3.Or(*bad)
        return [Q("bus-read-of-a-field-equals-its-data", 1, readback_list,
                  twin=lambda h, fr: ([], fr[0].sig(h.reg.element.r_data) != 0))]
    if cfg.get("layout") == "strobes":
        def strobes(h, fr):
            f = fr[0]
            reg = h.reg
            el = reg.element
            bad = [f.sig(reg.f.kick.w_stb) != f.sig(el.w_stb), f.sig(reg.f.pop.r_stb) != f.sig(el.r_stb)]
            if w:
                bad.append(f.sig(reg.f.kick.w_data) != z3.Extract(w - 1, 0, f.sig(el.w_data)))
                bad.append(z3.Extract(2 * w - 1, w, f.sig(el.r_data)) != f.sig(reg.f.pop.r_data))
            return [], z3.Or(*bad)
        return [Q("strobes-reach-zero-width-fields", 1, strobes,
                  twin=lambda h, fr: ([], is1(fr[0].sig(h.reg.f.kick.w_stb))))]

    def readback(h, fr):
        f = fr[0]
        reg = h.reg
        rd = f.sig(reg.element.r_data)
        bad = [z3.Extract(2, 0, rd) != f.sig(reg.f.lo.data), z3.Extract(4, 3, rd) != 0]
        if w:
            bad.append(z3.Extract(lo_x + w - 1, lo_x, rd) != f.sig(reg.f.x.data))
        bad.append(z3.Extract(lo_x + w, lo_x + w, rd) != 0)
        bad.append(z3.Extract(lo_x + w + 4, lo_x + w + 1, rd) != f.sig(reg.f.hi.data))
        return [], z3.Or(*bad)
    return [Q("bus-read-of-a-field-equals-its-data", 1, readback,
              twin=lambda h, fr: ([], fr[0].sig(h.reg.element.r_data) != 0))]


def maker(cfg):
    if cfg.get("inreg"):
        return _inreg_maker(cfg)

    def make():
        cls = getattr(action, cfg["cls"])
        sh = _shape(cfg["shape"])
        if cfg["init"] is not None:
            kind = cfg["shape"][0]
            if kind in ("e3", "e2s"):
                # enum inits must be members or ints; pass a plain int through Const-cast rules
                a = cls(sh, init=_to_init(cfg["shape"], cfg["init"]))
            else:
                a = cls(sh, init=_to_init(cfg["shape"], cfg["init"]))
        else:
            a = cls(sh)
        return Harness(a, flat_ports(a), a=a)
    return make


def queries(h, cfg):
    if cfg.get("inreg"):
        return _inreg_queries(h, cfg)
    a = h.a
    cls = cfg["cls"]
    w = _width(cfg["shape"])
    qs = []
    if cls in ("RW", "RW1C", "RW1S"):
        def step(h, fr):
            a = h.a
            f0, f1 = fr
            s0, s1 = f0.sig(a.data), f1.sig(a.data)
            wr = z3.If(is1(f0.sig(a.port.w_stb)), f0.sig(a.port.w_data), bv(w, 0))
            if cls == "RW":
                exp = z3.If(is1(f0.sig(a.port.w_stb)), f0.sig(a.port.w_data), s0)
            elif cls == "RW1C":
                exp = (s0 & ~wr) | f0.sig(a.set)
            else:
                exp = (s0 & ~f0.sig(a.clear)) | wr
            bad = z3.Or(s1 != exp, f0.sig(a.port.r_data) != s0, f1.sig(a.port.r_data) != s1)
            return [], bad

        def twin(h, fr):
            a = h.a
            return [], z3.And(fr[1].sig(a.data) != fr[0].sig(a.data), is1(fr[0].sig(a.port.w_stb)))
        qs.append(Q("exact-step", 2, step, init="free", twin=twin))

        def rst(h, fr):
            a = h.a
            return [], z3.Or(fr[0].sig(a.data) != bv(w, cfg["init"]),
                             fr[0].sig(a.port.r_data) != bv(w, cfg["init"]))
        qs.append(Q("reset-value", 1, rst, init="reset"))
    elif cls == "R":
        def comb(h, fr):
            a = h.a
            f = fr[0]
            return [], z3.Or(f.sig(a.port.r_data) != f.sig(a.r_data), f.sig(a.r_stb) != f.sig(a.port.r_stb))
        qs.append(Q("passthrough", 1, comb, init="free",
                    twin=lambda h, fr: ([], is1(fr[0].sig(h.a.r_stb)))))
    elif cls == "W":
        def comb(h, fr):
            a = h.a
            f = fr[0]
            return [], z3.Or(f.sig(a.w_data) != f.sig(a.port.w_data), f.sig(a.w_stb) != f.sig(a.port.w_stb))
        qs.append(Q("passthrough", 1, comb, init="free",
                    twin=lambda h, fr: ([], is1(fr[0].sig(h.a.w_stb)))))
    return qs


def _member_widths(cfg):
    """strobes are one bit wide, data members as wide as the field's shape (stand-alone actions)"""
    a = maker(cfg)().a
    w = _width(cfg["shape"])
    bad = []
    for path, member, sig in a.signature.flatten(a):
        nm = path[-1]
        if nm.endswith("_stb") and len(sig) != 1:
            bad.append(f"{'.'.join(map(str, path))} is {len(sig)} bits wide")
        if nm in ("r_data", "w_data", "data", "set", "clear") and len(sig) != w:
            bad.append(f"{'.'.join(map(str, path))} is {len(sig)} bits wide for a {w}-bit shape")
    return bad


def check(cfg, out, stats):
    if not cfg.get("inreg"):
        try:
            bad = _member_widths(cfg)
        except (ValueError, TypeError):
            bad = []
        if bad:
            from ..bmc import mark_violation
            mark_violation("member-widths")
            out.violations.append({"key": f"member-widths@{cfg['cls']}:{cfg['shape']}",
                                   "what": f"C12 {cfg['cls']}({cfg['shape']}): {'; '.join(bad[:3])}", "query": "member-widths",
                                   "cfg": cfg, "stimulus": [], "prefix": 0, "k": 0, "detail": {}})
            return
    run_queries(__import__(__name__, fromlist=["x"]), cfg, out, stats, cosim_cycles=12)
    if cfg["cls"].startswith("Res") and not cfg.get("inreg"):
        # "reserved fields influence nothing": the elaborated action has no state and drives none of
        # its interface signals (every port signal is left as a free input of the netlist).
        h = maker(cfg)()
        ts = h.translate()
        driven = [s.name for s in h.ports if id(s) in ts.driven]
        out.extra = {"structural_checks": 1}
        if ts.ffs or ts.mems or driven:
            out.violations.append({
                "key": f"reserved-drives@{cfg['cls']}:{cfg['shape']}",
                "what": f"C12 reserved action {cfg['cls']} has state or drives {driven}",
                "query": "reserved-influences-nothing", "cfg": cfg, "stimulus": [], "prefix": 0, "k": 0,
                "detail": {"driven": driven, "ffs": len(ts.ffs)}})


def replay(v):
    if v["query"] == "member-widths":
        return bool(_member_widths(v["cfg"]))
    if v["query"] == "reserved-influences-nothing":
        class O:
            violations = []
            extra = {}
        from ..bmc import Stats
        o = O()
        check(v["cfg"], o, Stats())
        return bool(o.violations)
    return _replay(__import__(__name__, fromlist=["x"]), v)
