"""C07 - Wishbone decoder selects one subordinate and relays only its responses.

E1: wishbone.Decoder.add/elaborate + Interface.memory_map setter + MemoryMap.window_patterns run for
real per geometry; the decoder is combinational: one free frame = every combination of request
signals and subordinate responses.  Oracle = decoder.bus.memory_map.windows().
"""
import random

import z3

from amaranth_soc import wishbone
from amaranth_soc.wishbone import CycleType, BurstTypeExt
from amaranth_soc.memory import MemoryMap

from ..bmc import Harness, flat_ports, is1, bv, in_range, zext
from ..e1 import Q, run_queries, replay as _replay

PROPERTY = "C07"
LEVEL = "model_checking"
FEATS = ["err", "rty", "stall", "lock", "cti", "bte"]
META = {
    "engine": "E1 nir2smt, single free frame (combinational design)",
    "encoded": ["wishbone.bus.Decoder.__init__", "wishbone.bus.Decoder.add", "wishbone.bus.Decoder.align_to",
                "wishbone.bus.Decoder.elaborate", "wishbone.bus.Interface.memory_map (setter)",
                "memory.MemoryMap.add_window", "memory.MemoryMap.window_patterns"],
    "also": 'as C06 plus feature sets given as wishbone.Feature members; address widths 12/20/30; a single window filling the whole address space (dense and sparse); a subordinate whose memory map object is also a window of a second decoder; a refused add() of a second interface carrying the memory map of an accepted subordinate',
    "bounds": "decoder addr width 2-6 (thorough 2-8) plus 1, 12, 20, 30, 58, 61, 62 bit decoders and one with 11 subordinates, data width 8-64, granularity <= data width, seeded feature "
              "subsets on decoder and subordinates, 0-3 (thorough 0-4) windows: dense between equal data width and "
              "granularity, or sparse; implicit / explicit aligned / align_to placement, alignment 0-3, named/anonymous",
    "outside": "dense windows onto a finer-granularity subordinate (excluded by the property itself); interfaces "
               "whose effective address width is clamped by max(1, .); sparse windows narrower than one bus word; "
               "address offset and select fan-out for sparse windows (not claimed by the property); inside alignment "
               "padding of a window only 'no other subordinate sees cyc' is asserted",
    "assumptions": ["subordinates keep ack/err/rty/stall low while their cyc input is low (Wishbone rule); their "
                    "dat_r is arbitrary"],
}


def _log2(x):
    return x.bit_length() - 1


def _build(cfg):
    fe = (lambda fs: [wishbone.Feature(f) for f in fs]) if cfg.get("enum") else (lambda fs: fs)
    dec = wishbone.Decoder(addr_width=cfg["aw"], data_width=cfg["dw"], granularity=cfg["gran"],
                           features=fe(cfg["feat"]), alignment=cfg["align"])
    subs = []
    for i, s in enumerate(cfg["subs"]):
        bus = wishbone.Interface(addr_width=s["aw"], data_width=s["dw"], granularity=s["gran"],
                                 features=fe(s["feat"]),
                                 path={"same": ("periph", "bus"), "none": ()}.get(cfg.get("names"), (f"sub{i}",)))
        bus.memory_map = MemoryMap(addr_width=s["aw"] + _log2(s["dw"] // s["gran"]), data_width=s["gran"])
        if s.get("align_to") is not None:
            dec.align_to(s["align_to"])
        if s.get("inspect_before"):
            # the partly built decoder is looked at (patterns listed, elaborated) after the cursor was moved and before
            # the next subordinate is placed - possibly BELOW the cursor, ending exactly at it
            from amaranth.hdl import Fragment
            list(dec.bus.memory_map.window_patterns())
            Fragment.get(dec, None)
        bus._verif_range = dec.add(bus, name=(f"w{i}" if s.get("named") else None), addr=s.get("addr"), sparse=s["sparse"])
        subs.append(bus)
        if cfg.get("staged") == i + 1:
            # the decoder is elaborated (e.g. a partial system is simulated) and extended afterwards
            from amaranth.hdl import Fragment
            Fragment.get(dec, None)
        if cfg.get("refuse_after") == i:
            # an add() the memory map refuses (explicit address out of bounds) in between: must leave no trace
            rb = wishbone.Interface(addr_width=1, data_width=cfg["dw"], granularity=cfg["gran"], path=(f"refused{i}",))
            rb.memory_map = MemoryMap(addr_width=1 + _log2(cfg["dw"] // cfg["gran"]), data_width=cfg["gran"])
            try:
                dec.add(rb, addr=1 << (cfg["aw"] + _log2(cfg["dw"] // cfg["gran"])))
                raise AssertionError("out-of-bounds window accepted")
            except ValueError:
                pass
        if cfg.get("twin_after") == i:
            # ... and neither must the refused add() of a SECOND interface carrying this subordinate's memory map
            # (the window is "already added"): the first interface stays the routed one
            tw = wishbone.Interface(addr_width=s["aw"], data_width=s["dw"], granularity=s["gran"], features=fe(s["feat"]),
                                    path=(f"twin{i}",))
            tw.memory_map = bus.memory_map
            try:
                dec.add(tw, sparse=s["sparse"])
                raise AssertionError("the same window accepted twice")
            except ValueError:
                pass
    if cfg.get("shared_map") and subs:
        # the memory map of the first subordinate is ALSO the window of a subordinate of a second, unrelated decoder
        # (the two ports of a dual-ported memory behind an instruction-side and a data-side decoder)
        s0 = cfg["subs"][0]
        dec2 = wishbone.Decoder(addr_width=cfg["aw"], data_width=cfg["dw"], granularity=cfg["gran"],
                                features=fe(cfg["feat"]), alignment=cfg["align"])
        port_b = wishbone.Interface(addr_width=s0["aw"], data_width=s0["dw"], granularity=s0["gran"],
                                    features=fe(s0["feat"]), path=("port_b",))
        port_b.memory_map = subs[0].memory_map
        dec2.add(port_b, sparse=s0["sparse"])
        dec._verif_other = (dec2, port_b)
    return dec, subs


def configs(tier, seed):
    rnd = random.Random(seed + 707)
    out = []
    want = 160 if tier == "quick" else 3000
    tries = 0
    while len(out) < want and tries < want * 30:
        tries += 1
        dw = rnd.choice([8, 16, 32, 64])
        gran = rnd.choice([g for g in (8, 16, 32, 64) if g <= dw])
        gbits = _log2(dw // gran)
        aw = rnd.randint(2, 6 if tier == "quick" else 8) if tries % 25 else rnd.choice([12, 20, 30, 58, 61])
        feat = [f for f in FEATS if rnd.random() < 0.5]
        cfg = {"aw": aw, "dw": dw, "gran": gran, "feat": feat, "align": rnd.choice([0, 0, 0, 1, 2, 3]), "subs": [],
               "staged": rnd.choice([None, None, 1, 2]), "enum": rnd.random() < 0.4,
               "refuse_after": rnd.choice([None, None, 0, 1]), "shared_map": tries % 5 == 2,
               "twin_after": (tries // 3) % 3 if tries % 3 == 1 else None,
               "names": {3: "same", 5: "none"}.get(tries % 7)}
        for i in range(rnd.randint(0 if rnd.random() < 0.05 else 1, 3 if tier == "quick" else 4)):
            sparse = rnd.random() < 0.35
            if sparse:
                sdw = rnd.choice([g for g in (8, 16, 32, 64) if g <= gran])
                sgran = sdw
                saw = rnd.randint(max(1, gbits), aw + gbits - 1) if aw + gbits - 1 >= max(1, gbits) else None
            else:
                sdw, sgran = dw, gran
                saw = rnd.randint(1 if gbits == 0 else 0, aw - 1)
            if saw is None or saw + _log2(sdw // sgran) < 1:
                continue
            sfeat = [f for f in FEATS if rnd.random() < 0.5 and (f in feat or f in ("lock", "cti", "bte"))]
            s = {"aw": saw, "dw": sdw, "gran": sgran, "sparse": sparse, "feat": sfeat, "named": rnd.random() < 0.5}
            mode = rnd.choice(["implicit", "implicit", "explicit", "align_to"])
            map_aw = saw + _log2(sdw // sgran)
            if mode == "explicit":
                size = 1 << max(map_aw, cfg["align"])
                total = 1 << (aw + gbits)
                if size > total:
                    continue
                s["addr"] = rnd.randrange(0, total // size) * size
            elif mode == "align_to":
                s["align_to"] = rnd.randint(0, aw + gbits - 1)
            cfg["subs"].append(s)
        try:
            _build(cfg)
        except ValueError:
            continue
        out.append(cfg)
    # a single window that fills the decoder's whole address space (no constant address bits left to compare)
    for aw, dw, gran in ((3, 8, 8), (4, 32, 8), (5, 32, 16), (2, 64, 8), (6, 16, 16)):
        gbits = _log2(dw // gran)
        for sub in ({"aw": aw, "dw": dw, "gran": gran, "sparse": False},
                    {"aw": aw + gbits, "dw": gran, "gran": gran, "sparse": True}):
            cfg = {"aw": aw, "dw": dw, "gran": gran, "feat": ["err"] if aw % 2 else [], "align": 0, "staged": None, "enum": False,
                   "refuse_after": None, "subs": [dict(sub, feat=[], named=bool(aw % 2))]}
            try:
                _build(cfg)
            except ValueError:
                continue
            out.append(cfg)
    base = {"feat": ["err", "stall"], "align": 0, "staged": None, "enum": False, "refuse_after": None}
    sub = lambda aw, dw, gran, **k: dict({"aw": aw, "dw": dw, "gran": gran, "sparse": False, "feat": [], "named": False}, **k)
    # the cursor is moved past free space, the decoder is inspected, and the next subordinate goes BELOW the cursor,
    # ending exactly at it (nothing about the map's "next address" changes with that add)
    out.append(dict(base, aw=5, dw=8, gran=8, subs=[sub(2, 8, 8), sub(2, 8, 8, named=True, align_to=4, inspect_before=True, addr=12)]))
    out.append(dict(base, aw=6, dw=32, gran=8, subs=[sub(1, 32, 8, named=True),
                                                     sub(3, 32, 8, align_to=7, inspect_before=True, addr=96, feat=["err"]),
                                                     sub(2, 32, 8, inspect_before=True, addr=32)]))
    # the smallest buses there are: a decoder with one address bit, subordinates with one and with no address bits
    out.append(dict(base, aw=1, dw=8, gran=8, subs=[sub(1, 8, 8)]))
    out.append(dict(base, aw=2, dw=16, gran=8, subs=[sub(0, 16, 8), sub(1, 16, 8, named=True)]))
    # many subordinates (a count that is not a multiple of 2, 4 or 8)
    for count in ((11,) if tier == "quick" else (11, 19, 23)):
        out.append(dict(base, aw=8, dw=16, gran=8,
                        subs=[sub(1 + (i % 3), 16, 8, named=bool(i % 2), feat=[["err"], [], ["stall"]][i % 3]) for i in range(count)]))
    # small windows high up in a very wide address space (their base has more significant bits than a float carries)
    for aw, dw, gran in ((62, 32, 8), (58, 8, 8)):
        out.append(dict(base, aw=aw, dw=dw, gran=gran,
                        subs=[sub(aw - 1, dw, gran)] + [sub(4, dw, gran, named=bool(i % 2)) for i in range(5)]))
    return out


def maker(cfg):
    def make():
        dec, subs = _build(cfg)
        return Harness(dec, flat_ports(dec, *subs), dec=dec, subs=subs)
    return make


def queries(h, cfg):
    gbits = _log2(cfg["dw"] // cfg["gran"])

    def layout(h):
        lay = []
        for sub in h.subs:
            start, stop = sub._verif_range[0], sub._verif_range[1]        # what add() promised
            core_stop = start + (1 << sub.memory_map.addr_width)
            lay.append((sub, start >> gbits, -(-core_stop >> gbits) if False else (core_stop >> gbits), -((-stop) >> gbits)))
        return lay

    def selection(h, fr):
        f = fr[0]
        bus = h.dec.bus
        A = f.sig(bus.adr)
        cyc = is1(f.sig(bus.cyc))
        bad = []
        for (sub, scfg), (_, lo, core_hi, hi) in zip(zip(h.subs, cfg["subs"]), layout(h)):
            core = in_range(A, lo, core_hi)
            own = in_range(A, lo, hi)
            scyc = is1(f.sig(sub.cyc))
            bad.append(z3.And(core, scyc != cyc))
            bad.append(z3.And(z3.Not(own), scyc))
            sel_ = core          # the ADDRESS-selected subordinate receives the request unmodified, whatever cyc is
            req = [f.sig(sub.we) != f.sig(bus.we), f.sig(sub.stb) != f.sig(bus.stb),
                   f.sig(sub.dat_w) != z3.Extract(sub.data_width - 1, 0, f.sig(bus.dat_w))]
            if not scfg["sparse"]:
                if sub.addr_width:
                    req.append(f.sig(sub.adr) != z3.Extract(sub.addr_width - 1, 0, A))
                req.append(f.sig(sub.sel) != f.sig(bus.sel))
            if hasattr(sub, "lock"):
                req.append(f.sig(sub.lock) != (f.sig(bus.lock) if hasattr(bus, "lock") else bv(1, 0)))
            if hasattr(sub, "cti"):
                req.append(f.sig(sub.cti) != (f.sig(bus.cti) if hasattr(bus, "cti") else bv(3, 0b000)))
            if hasattr(sub, "bte"):
                req.append(f.sig(sub.bte) != (f.sig(bus.bte) if hasattr(bus, "bte") else bv(2, 0b00)))
            bad.append(z3.And(sel_, z3.Or(*req)))
        return [], z3.Or(*bad) if bad else z3.BoolVal(False)

    def responses(h, fr):
        f = fr[0]
        bus = h.dec.bus
        A = f.sig(bus.adr)
        assume = []
        for sub in h.subs:
            quiet = [f.sig(sub.ack) == 0]
            for nm in ("err", "rty", "stall"):
                if hasattr(sub, nm):
                    quiet.append(f.sig(getattr(sub, nm)) == 0)
            assume.append(z3.Implies(f.sig(sub.cyc) == 0, z3.And(*quiet)))
        lay = layout(h)
        exp = {"ack": bv(1, 0), "err": bv(1, 0), "rty": bv(1, 0), "stall": bv(1, 0), "dat_r": bv(cfg["dw"], 0)}
        for sub, lo, core_hi, hi in reversed(lay):
            core = in_range(A, lo, core_hi)
            for nm in ("ack", "err", "rty", "stall"):
                val = f.sig(getattr(sub, nm)) if hasattr(sub, nm) else bv(1, 0)
                exp[nm] = z3.If(core, val, exp[nm])
            exp["dat_r"] = z3.If(core, zext(f.sig(sub.dat_r), cfg["dw"]), exp["dat_r"])
        # inside alignment padding nothing is claimed about read data
        in_pad = z3.Or(*[z3.And(in_range(A, lo, hi), z3.Not(in_range(A, lo, core_hi))) for _, lo, core_hi, hi in lay]) \
            if lay else z3.BoolVal(False)
        bad = [f.sig(bus.ack) != exp["ack"]]
        for nm in ("err", "rty", "stall"):
            if hasattr(bus, nm):
                bad.append(f.sig(getattr(bus, nm)) != exp[nm])
        bad.append(z3.And(z3.Not(in_pad), f.sig(bus.dat_r) != exp["dat_r"]))
        return assume, z3.Or(*bad)

    def twin(h, fr):
        f = fr[0]
        return [], z3.Or(*[is1(f.sig(s.cyc)) for s in h.subs]) if h.subs else z3.BoolVal(True)

    def twin2(h, fr):
        a, _ = responses(h, fr)
        return a, is1(fr[0].sig(h.dec.bus.ack)) if h.subs else z3.BoolVal(True)
    return [Q("selection-and-request-relay", 1, selection, twin=twin),
            Q("responses-of-selected-only", 1, responses, twin=twin2)]


def _windows_agree(cfg):
    dec, subs = _build(cfg)
    rep = {id(w): (s_, e_, r_) for w, n_, (s_, e_, r_) in dec.bus.memory_map.windows()}
    return all(rep.get(id(sub.memory_map)) == tuple(sub._verif_range) for sub in subs) and len(rep) == len(subs)


def check(cfg, out, stats):
    if not _windows_agree(cfg):
        from ..bmc import mark_violation
        from ..e1 import cfg_key
        mark_violation("windows-disagree")
        out.violations.append({"key": f"windows-disagree@{cfg_key(cfg)}",
                               "what": f"C07 the decoder's memory map does not report the windows its add() calls returned "
                                       f"({cfg_key(cfg)})", "query": "windows", "cfg": cfg, "stimulus": [], "prefix": 0,
                               "k": 0, "detail": {}})
        return
    run_queries(__import__(__name__, fromlist=["x"]), cfg, out, stats, cosim_cycles=8)


def replay(v):
    if v["query"] == "windows":
        return not _windows_agree(v["cfg"])
    return _replay(__import__(__name__, fromlist=["x"]), v)
