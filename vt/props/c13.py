"""C13 - event monitor never loses an event and reports exactly enabled-and-pending.

E1 half: event.Monitor.elaborate for every trigger assignment of n sources: trigger functions over
two consecutive frames from a FREE state and from reset ("initially low"), exact pending step with
bit k = event_map.index(src), outgoing line = (enable & pending) != 0.
E2 half: the real EventMap.add/index/sources/freeze/size executed on symbolic call sequences (the
source of each call is a symbolic choice) - see _eventmap_symex().
"""
import itertools
import random

import z3

from amaranth_soc import event

from ..bmc import Harness, flat_ports, is1, bv
from ..e1 import Q, run_queries, replay as _replay

PROPERTY = "C13"
LEVEL = "model_checking"
META = {
    "engine": "E1 nir2smt for event.Monitor; E2 symex for event.EventMap",
    "encoded": ["event.Monitor.__init__", "event.Monitor.elaborate", "event.Source", "event.EventMap.add",
                "event.EventMap.index", "event.EventMap.sources", "event.EventMap.freeze", "event.EventMap.size"],
    "also": '9 and 17 (thorough 33) sources; triggers given as enum members',
    "bounds": "n = 0..4 sources (thorough 0..6) exhaustively, plus monitors of 9, 17, 45, 70 (thorough also 33, 100, 130) sources, all 3^n trigger assignments (thorough: all up to n=5, seeded "
              "sample for n=6), sources added in permuted order; 2 frames free + 1 frame reset; EventMap: call "
              "sequences of <= 5 (thorough 6) calls over 3 sources with symbolic source choice",
    "outside": "behaviour under rst; more than 6 sources",
    "assumptions": ["single clock domain, rst low"],
}

TRG = ["level", "rise", "fall"]
try:
    from . import c13_eventmap as _em_mod
    _HAVE_EM = True
except ImportError:
    _HAVE_EM = False


def configs(tier, seed):
    rnd = random.Random(seed)
    out = [{"kind": "monitor", "trg": [], "order": [], "montrg": "level"}]
    nmax = 4 if tier == "quick" else 6
    for n in range(1, nmax + 1):
        combos = list(itertools.product(range(3), repeat=n))
        if tier == "quick" and n == 4:
            combos = rnd.sample(combos, 27)
        if n == 6:
            combos = rnd.sample(combos, 81)
        for c in combos:
            order = list(range(n))
            rnd.shuffle(order)
            out.append({"kind": "monitor", "trg": [TRG[i] for i in c], "order": order,
                        "montrg": TRG[rnd.randrange(3)]})
            if len(out) % 4 == 2 and n > 1:
                out[-1]["names"] = "same" if len(out) % 8 == 2 else "none"
            if len(out) % 3 == 0 and n > 2:
                out[-1]["readd"] = True      # add a, b, c, ... and then a AGAIN, after the others
    # (sizes straddling 32 and 64: an OR-reduction built from 32- or 64-bit groups has a partial last group there)
    for n in ((9, 17, 45, 70) if tier == "quick" else (9, 17, 33, 45, 70, 100, 130)):
        order = list(range(n))
        rnd.shuffle(order)
        out.append({"kind": "monitor", "trg": [TRG[rnd.randrange(3)] for _ in range(n)], "order": order,
                    "montrg": TRG[rnd.randrange(3)]})
    # few edge-triggered sources at scattered positions among level-triggered ones (index 8 next to index 1: a set of
    # small integers is not iterated in ascending order once an element wraps around its hash table)
    for n, edges in ((10, {1: "rise", 8: "fall"}), (12, {3: "fall", 8: "rise", 9: "fall"}), (18, {0: "rise", 16: "fall", 17: "rise"})):
        out.append({"kind": "monitor", "trg": [edges.get(i, "level") for i in range(n)], "order": list(range(n)),
                    "montrg": "level"})
    for depth in (() if not _HAVE_EM else (3, 4, 5) if tier == "quick" else (3, 4, 5, 6)):
        out.append({"kind": "eventmap", "calls": depth})
    return out


def maker(cfg):
    def make():
        # source paths: distinct (default), all equal, or none at all (every input signal is then called "i")
        path_of = {"same": lambda i: ("irq", "line"), "none": lambda i: ()}.get(cfg.get("names"), lambda i: (f"s{i}",))
        srcs = [event.Source(trigger=(event.Source.Trigger(t) if i % 2 else t), path=path_of(i)) for i, t in enumerate(cfg["trg"])]
        em = event.EventMap()
        for i in cfg["order"]:
            em.add(srcs[i])
            if i % 2 == 0:
                em.add(srcs[i])      # repeated additions must not renumber
        if cfg.get("readd"):
            em.add(srcs[cfg["order"][0]])   # ... nor reorder: a source added again after later ones keeps its place
            em.add(srcs[cfg["order"][1]])
        mon = event.Monitor(em, trigger=cfg["montrg"])
        ports = flat_ports(mon) + flat_ports(*srcs, env="out")
        # event.Monitor declares `pending` as In although the monitor itself drives it: not an environment input
        from ..nir2smt import raw
        ports.env.discard(id(raw(mon.pending)))
        return Harness(mon, ports, mon=mon, srcs=srcs, em=em)
    return make


def queries(h, cfg):
    n = len(cfg["trg"])
    qs = []

    def out_line(h, fr):
        f = fr[0]
        mon = h.mon
        if n == 0:
            return [], is1(f.sig(mon.src.i))
        exp = (f.sig(mon.enable) & f.sig(mon.pending)) != 0
        return [], is1(f.sig(mon.src.i)) != exp
    qs.append(Q("line-is-enabled-and-pending", 1, out_line,
                twin=(lambda h, fr: ([], is1(fr[0].sig(h.mon.src.i)))) if n else None))
    if n == 0:
        return qs

    def trg_step(h, fr):
        f0, f1 = fr
        bad = []
        for s, mode in zip(h.srcs, cfg["trg"]):
            i0, i1, t1 = is1(f0.sig(s.i)), is1(f1.sig(s.i)), is1(f1.sig(s.trg))
            exp = {"level": i1, "rise": z3.And(z3.Not(i0), i1), "fall": z3.And(i0, z3.Not(i1))}[mode]
            bad.append(t1 != exp)
        return [], z3.Or(*bad)
    qs.append(Q("trigger-follows-mode", 2, trg_step))

    def trg_reset(h, fr):
        f = fr[0]
        bad = []
        for s, mode in zip(h.srcs, cfg["trg"]):
            i0, t0 = is1(f.sig(s.i)), is1(f.sig(s.trg))
            exp = {"level": i0, "rise": i0, "fall": z3.BoolVal(False)}[mode]
            bad.append(t0 != exp)
        bad.append(f.sig(h.mon.pending) != 0)
        return [], z3.Or(*bad)
    qs.append(Q("initially-low-and-no-pending", 1, trg_reset, init="reset"))

    def pend_step(h, fr):
        f0, f1 = fr
        mon = h.mon
        p0, p1, clr = f0.sig(mon.pending), f1.sig(mon.pending), f0.sig(mon.clear)
        bad = []
        for s in h.srcs:
            k = h.em.index(s)
            b = lambda x: z3.Extract(k, k, x) == 1
            exp = z3.Or(is1(f0.sig(s.trg)), z3.And(b(p0), z3.Not(b(clr))))
            bad.append(b(p1) != exp)
        return [], z3.Or(*bad)

    def pend_twin(h, fr):
        mon = h.mon
        return [], z3.And(fr[0].sig(mon.pending) != 0, fr[1].sig(mon.pending) == 0)
    qs.append(Q("pending-exact-step", 2, pend_step, twin=pend_twin))
    return qs


def _index_oracle(h, cfg):
    """numbers dense, stable, in order of first addition - checked concretely on the built map."""
    exp = {}
    for i in cfg["order"]:
        exp.setdefault(i, len(exp))
    got = {i: h.em.index(s) for i, s in enumerate(h.srcs)}
    listed = [(h.srcs.index(s), k) for s, k in h.em.sources()]
    return got == exp and sorted(listed, key=lambda x: x[1]) == sorted(exp.items(), key=lambda x: x[1]) \
        and h.em.size == len(exp)


def check(cfg, out, stats):
    if cfg["kind"] == "eventmap":
        from .c13_eventmap import check_eventmap
        return check_eventmap(cfg, out, stats)
    h = maker(cfg)()
    out.extra = {"concrete_index_checks": 1}
    widths = [(len(s_.i), len(s_.trg)) for s_ in h.srcs] + [(len(h.mon.src.i), len(h.mon.src.trg))]
    n_ = len(cfg["trg"])
    if any(w_ != (1, 1) for w_ in widths) or (len(h.mon.enable), len(h.mon.pending), len(h.mon.clear)) != (n_, n_, n_):
        from .. import bmc as _b
        _b.mark_violation("member-widths")
        out.violations.append({"key": f"member-widths@{n_}",
                               "what": f"C13 an event line / trigger is not one bit wide, or a mask is not one bit per event "
                                       f"(lines {sorted(set(widths))}, masks {len(h.mon.enable)}/{len(h.mon.pending)}/"
                                       f"{len(h.mon.clear)} for {n_} events)",
                               "query": "member-widths", "cfg": cfg, "stimulus": [], "prefix": 0, "k": 0, "detail": {}})
        return
    if not _index_oracle(h, cfg):
        out.violations.append({"key": f"eventmap-index@{cfg['order']}",
                               "what": f"C13 EventMap numbering is not dense/stable/first-addition for add order {cfg['order']}",
                               "query": "eventmap-index-concrete", "cfg": cfg, "stimulus": [], "prefix": 0, "k": 0,
                               "detail": {}})
        return      # bit k of the masks is meaningless when the numbering is wrong
    run_queries(__import__(__name__, fromlist=["x"]), cfg, out, stats, cosim_cycles=16)


def replay(v):
    if v["query"] == "member-widths":
        h = maker(v["cfg"])()
        n_ = len(v["cfg"]["trg"])
        return any((len(s_.i), len(s_.trg)) != (1, 1) for s_ in h.srcs + [h.mon.src]) or \
            (len(h.mon.enable), len(h.mon.pending), len(h.mon.clear)) != (n_, n_, n_)
    if v["query"] == "eventmap-index-concrete":
        return not _index_oracle(maker(v["cfg"])(), v["cfg"])
    if v["cfg"].get("kind") == "eventmap":
        from .c13_eventmap import replay_eventmap
        return replay_eventmap(v)
    return _replay(__import__(__name__, fromlist=["x"]), v)
