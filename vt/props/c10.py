"""C10 - Wishbone-to-CSR bridge performs each transfer exactly once, in order, on time.

E1: WishboneCSRBridge.__init__/elaborate is translated; a reference sequencer (position inside the
current transfer, a pure function of the request history) is unrolled next to the netlist from reset
for D frames with symbolic requests, gaps, cyc-without-stb cycles and back-to-back transfers under a
protocol-abiding initiator; all-state clauses are proved from a free state.
"""
import z3

from amaranth_soc import csr
from amaranth_soc.csr.wishbone import WishboneCSRBridge
from amaranth_soc.memory import MemoryMap

from ..bmc import Harness, flat_ports, is1, bv, zext
from ..e1 import Q, run_queries, replay as _replay

PROPERTY = "C10"
LEVEL = "model_checking"
META = {
    "engine": "E1 nir2smt; reset-rooted BMC against a reference sequencer (base case) + induction over transfers from "
              "every reachable control state with free data registers + free-state one/two-frame clauses",
    "encoded": ["csr.wishbone.WishboneCSRBridge.__init__", "csr.wishbone.WishboneCSRBridge.elaborate",
                "wishbone.bus.Signature", "csr.bus.Interface"],
    "also": 'CSR address widths 12 and 16; induction step: the transfer following ANY acknowledge (any reachable sequencer state, any data register contents, gap 0-2 cycles, longer gaps by an idle-collapse lemma) is exact; the transfer following a reset pulse applied in ANY state is exact',
    "bounds": "CSR data width 8/16/32/64 x ratio 1/2/4/8 (Wishbone data width <= 64), CSR address width "
              "log2(ratio)+0..3 (thorough: ..+5, up to 6); D = 2*(ratio+2)+2 frames from reset (thorough "
              "3*(ratio+2)+2): at least two (three) complete transfers incl. back-to-back, arbitrary idle gaps, "
              "cyc without stb, every select mask, read and write",
    "outside": "the cycle(s) in which rst is high; initiators that withdraw or change a request before the acknowledge (protocol "
               "violation); unselected lanes of dat_r; histories longer than D frames beyond the all-state clauses",
    "assumptions": ["protocol-abiding initiator: once cyc&stb is presented, cyc, stb, adr, we, sel, dat_w are held "
                    "until the cycle in which ack is high", "CSR side: r_data is an arbitrary value every cycle"],
}


def _log2(x):
    return x.bit_length() - 1


def configs(tier, seed):
    out = []
    for cdw in (8, 16, 32, 64):
        for ratio in (1, 2, 4, 8):
            if cdw * ratio > 64:
                continue
            lo = max(1, _log2(ratio))
            for aw in range(lo, min(6, lo + (3 if tier == "quick" else 5)) + 1):
                out.append({"cdw": cdw, "ratio": ratio, "aw": aw, "D": (2 if tier == "quick" else 3) * (ratio + 2) + 2})
    out.append({"cdw": 8, "ratio": 4, "aw": 12, "D": 2 * (4 + 2) + 2})
    out.append({"cdw": 16, "ratio": 2, "aw": 16, "D": 2 * (2 + 2) + 2})
    return out


def maker(cfg):
    def make():
        bus = csr.Interface(addr_width=cfg["aw"], data_width=cfg["cdw"], path=("csr",))
        bus.memory_map = MemoryMap(addr_width=cfg["aw"], data_width=cfg["cdw"])
        br = WishboneCSRBridge(bus, data_width=cfg["cdw"] * cfg["ratio"])
        return Harness(br, flat_ports(br, bus), br=br, bus=bus)
    return make


def queries(h, cfg):
    ratio, cdw, aw, D = cfg["ratio"], cfg["cdw"], cfg["aw"], cfg["D"]
    lg = _log2(ratio)
    PW = 5

    def monitor(h, fr):
        wb, cb = h.br.wb_bus, h.bus
        assume, bad = [], []
        pos = bv(PW, 0)
        lanes = [bv(cdw, 0)] * ratio
        prev = None
        reached_ack = []
        for t, f in enumerate(fr):
            req = z3.And(is1(f.sig(wb.cyc)), is1(f.sig(wb.stb)))
            we = is1(f.sig(wb.we))
            sel = f.sig(wb.sel)
            adr = f.sig(wb.adr)
            datw = f.sig(wb.dat_w)
            inflight = z3.And(z3.UGE(pos, bv(PW, 1)), z3.ULE(pos, bv(PW, ratio + 1)))
            if prev is not None:
                same = [req, we == prev["we"], sel == prev["sel"], datw == prev["datw"]]
                if adr is not None:
                    same.append(adr == prev["adr"])
                assume.append(z3.Implies(inflight, z3.And(*same)))
            # expected outputs in this cycle
            issuing = z3.And(z3.ULT(pos, bv(PW, ratio)), req)
            exp_r = z3.BoolVal(False)
            exp_w = z3.BoolVal(False)
            for k in range(ratio):
                selk = z3.Extract(k, k, sel) == 1
                at = z3.And(issuing, pos == bv(PW, k))
                exp_r = z3.Or(exp_r, z3.And(at, selk, z3.Not(we)))
                exp_w = z3.Or(exp_w, z3.And(at, selk, we))
                lane_w = z3.Extract((k + 1) * cdw - 1, k * cdw, datw)
                if adr is None:
                    full = bv(max(lg, 1), k) if lg else None
                else:
                    full = z3.Concat(adr, bv(lg, k)) if lg else adr
                if full is not None:
                    exp_addr = z3.Extract(aw - 1, 0, full) if full.size() >= aw else zext(full, aw)
                    bad.append(z3.And(at, selk, f.sig(cb.addr) != exp_addr))
                bad.append(z3.And(at, selk, we, f.sig(cb.w_data) != lane_w))
            bad.append(is1(f.sig(cb.r_stb)) != exp_r)
            bad.append(is1(f.sig(cb.w_stb)) != exp_w)
            ackc = pos == bv(PW, ratio + 1)
            bad.append(is1(f.sig(wb.ack)) != ackc)
            datr = f.sig(wb.dat_r)
            for k in range(ratio):
                selk = z3.Extract(k, k, sel) == 1
                bad.append(z3.And(ackc, selk, z3.Not(we),
                                  z3.Extract((k + 1) * cdw - 1, k * cdw, datr) != lanes[k]))
            reached_ack.append(ackc)
            # lane capture: r_data of the access issued at position k arrives while position is k+1
            rd = f.sig(cb.r_data)
            lanes = [z3.If(pos == bv(PW, k + 1), rd, lanes[k]) for k in range(ratio)]
            nxt = z3.If(pos == bv(PW, ratio + 1), bv(PW, 0),
                        z3.If(pos == bv(PW, ratio), bv(PW, ratio + 1),
                              z3.If(req, pos + 1, pos)))
            prev = {"we": we, "sel": sel, "datw": datw, "adr": adr}
            pos = nxt
        return assume, z3.Or(*bad), reached_ack

    def build(h, fr):
        a, b, _ = monitor(h, fr)
        return a, b

    # ---- induction over the sequence of transfers: from ANY reachable control state (sequencer / acknowledge
    # registers) with ANY contents of the data registers, in a cycle in which the bridge acknowledges, the NEXT
    # transfer - starting 0, 1 or 2 cycles later - is exact.  With the reset-rooted window as the base case and the
    # idle-collapse lemma (check()) for longer gaps, this covers histories of any length.
    def after_ack(h, fr):
        a, b, _ = monitor(h, fr[1:])
        return [_member(h, fr[0]), is1(fr[0].sig(h.br.wb_bus.ack))] + a, b

    # ---- reset: whatever state the bridge is in (e.g. in the middle of a transfer), a cycle with rst high - during
    # which the initiator presents no request - brings it back to where the next transfer is exact
    def after_reset(h, fr):
        from ..bmc import rst_of
        wb = h.br.wb_bus
        a, b, _ = monitor(h, fr[1:])
        pre = [z3.Not(z3.And(is1(fr[0].sig(wb.cyc)), is1(fr[0].sig(wb.stb))))]
        if rst_of(fr[0]) is not None:
            pre.append(rst_of(fr[0]))
            pre += [z3.Not(rst_of(f)) for f in fr[1:]]
        return pre + a, b

    def after_reset_twin(h, fr):
        a, _ = after_reset(h, fr)
        _, _, acks = monitor(h, fr[1:])
        return a, z3.Or(*acks)

    def after_ack_twin(h, fr):
        a, _, acks = monitor(h, fr[1:])
        return [_member(h, fr[0]), is1(fr[0].sig(h.br.wb_bus.ack))] + a, z3.Or(*acks)

    def twin(h, fr):
        a, _, acks = monitor(h, fr)
        # two acknowledges inside the window, the second transfer starting right after the first ack
        n = sum([z3.If(x, bv(6, 1), bv(6, 0)) for x in acks], bv(6, 0))
        return a, z3.UGE(n, bv(6, 2 if D >= 2 * (ratio + 2) else 1))

    def no_strobe_outside(h, fr):
        f = fr[0]
        wb, cb = h.br.wb_bus, h.bus
        idle = z3.Not(z3.And(is1(f.sig(wb.cyc)), is1(f.sig(wb.stb))))
        return [idle], z3.Or(is1(f.sig(cb.r_stb)), is1(f.sig(cb.w_stb)))

    def ack_one_cycle(h, fr):
        wb = h.br.wb_bus
        return [], z3.And(is1(fr[0].sig(wb.ack)), is1(fr[1].sig(wb.ack)))
    return [Q("transfers-exact-from-reset", D, build, init="reset", twin=twin),
            Q("next-transfer-exact-after-any-acknowledge", ratio + 6, after_ack, twin=after_ack_twin, max_prefix=ratio + 3),
            Q("next-transfer-exact-after-a-reset-pulse-in-any-state", ratio + 5, after_reset, twin=after_reset_twin,
              max_prefix=ratio + 3, rst=True),
            Q("no-strobe-outside-transfer", 1, no_strobe_outside),
            Q("ack-single-cycle", 2, ack_one_cycle,
              twin=lambda h, fr: ([], is1(fr[1].sig(h.br.wb_bus.ack))))]


def _reach(h):
    if not hasattr(h, "_ctrl_reach"):
        from ..reach import CtrlReach
        from ..bmc import Stats
        h._ctrl_reach = CtrlReach(h, Stats())
    return h._ctrl_reach


def _member(h, frame):
    if getattr(frame, "state", None) is None:
        return z3.BoolVal(True)          # simulator replay from reset: reachable by construction
    return _reach(h).member(frame)


def check(cfg, out, stats):
    run_queries(__import__(__name__, fromlist=["x"]), cfg, out, stats, cosim_cycles=24)
    # idle-collapse lemma: after an acknowledge, request-free cycles reach a fixed point of the whole state within
    # two cycles, so the gaps of 0..2 cycles in the induction window stand for every gap.  A failing lemma is not a
    # violation of the property; it voids the generalisation (exit 2).
    from ..bmc import unroll, solve, Inconclusive
    h = maker(cfg)()
    ts = h.translate()
    wb = h.br.wb_bus
    from ..reach import CtrlReach
    h._ctrl_reach = CtrlReach(h, stats)          # (the same iteration as inside the queries, counted in the evidence here)
    frames, cons = unroll(ts, 4, init="free", tag="L")
    a = [_member(h, frames[0]), is1(frames[0].sig(wb.ack))]
    for f in frames[1:3]:
        a.append(z3.Not(z3.And(is1(f.sig(wb.cyc)), is1(f.sig(wb.stb)))))
    s2, s3 = frames[2].state, frames[3].state
    diff = [s2[k] != s3[k] for k in s2]
    if diff:
        r, _ = solve(cons + a + [z3.Or(*diff)], stats, "lemma-idle-collapse-after-ack", want_model=False)
        if r != "unsat":
            raise Inconclusive("idle-collapse lemma fails: gaps of 0..2 cycles between transfers do not stand for all gaps")
    out.extra = dict(getattr(out, "extra", None) or {}, reachable_control_states=len(_reach(h).states))


def replay(v):
    return _replay(__import__(__name__, fromlist=["x"]), v)
