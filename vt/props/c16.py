"""C16 - GPIO pins follow their mode table, inputs are delayed exactly, pins independent.

E1: gpio.Peripheral with everything beneath it (csr.Builder, csr.Bridge, csr.Multiplexer, registers,
field actions) is translated.  Black box: only the CSR bus, the pins and alt_mode are read; register
addresses come from the memory map by name.  Windows start in a FREE state (any earlier history).
"""
import z3

from amaranth_soc import gpio

from ..bmc import Harness, flat_ports, is1, bv, zext
from ..e1 import Q, run_queries, replay as _replay

PROPERTY = "C16"
LEVEL = "model_checking"
META = {
    "engine": "E1 nir2smt; transaction windows from a free state, all pins checked jointly",
    "encoded": ["gpio.Peripheral.__init__", "gpio.Peripheral.elaborate", "gpio.Peripheral.Mode/Input/Output/SetClr",
                "gpio.Peripheral.Output._FieldAction.elaborate", "csr.reg.Builder", "csr.reg.Bridge",
                "csr.bus.Multiplexer.elaborate", "csr.reg.Register.elaborate", "csr.action.R/W/RW"],
    "also": '17 pins (thorough 24, 33); 24- and 40-bit data buses with registers that just spill into another word; Mode writes inside the enumerated sequences; two SetClr writes back to back; enumerated Output/SetClr/read sequences without idle cycles; pins checked in every cycle across Mode/Output/SetClr writes',
    "bounds": "pin count 1,2,3,4,5,8,9,17 and 40 (thorough + 12,16,24,33), data width 8/16 (thorough 8/16/32), minimal address "
              "width and +1, input_stages 0-3; windows: Mode write + Output write (+2), Output write + SetClr write + "
              "Output read-back, Input read with pin inputs free in every cycle; register transactions back to back "
              "(gaps inside the multiplexer are C04/C05's subject)",
    "outside": "behaviour under rst; pin.o while the pin is not driven (oe = 0) is not asserted; more than 17 pins",
    "assumptions": ["one register transaction at a time, chunks in ascending order, as the CSR protocol requires"],
}


def _min_aw(pins, dw):
    for aw in range(1, 12):
        try:
            gpio.Peripheral(pin_count=pins, addr_width=aw, data_width=dw)
            return aw
        except ValueError:
            continue
    raise RuntimeError("no address width fits")


def configs(tier, seed):
    out = []
    pins = [1, 2, 3, 4, 5, 8, 9, 17] if tier == "quick" else [1, 2, 3, 4, 5, 8, 9, 12, 16, 17, 24, 33]
    for p in pins:
        for dw in ([8, 16] if tier == "quick" else [8, 16, 32]):
            aw0 = _min_aw(p, dw)
            for aw in (aw0, aw0 + 1):
                for st in (0, 1, 2, 3):
                    if tier == "quick" and (aw != aw0) and st not in (2,):
                        continue
                    if p >= 17 and (st != 1 or aw != aw0 or (tier == "quick" and dw != 16)):
                        continue
                    out.append({"pins": p, "dw": dw, "aw": aw, "stages": st, "base": aw == aw0})
    # data widths that are not powers of two (legal for CSR buses), with pin counts whose Mode / SetClr registers just
    # spill into one more bus word
    # (address widths worked out by hand from the documented layout, not asked from the library)
    for p, dw, aw in ((13, 24, 3), (25, 24, 4), (21, 40, 3)):
        out.append({"pins": p, "dw": dw, "aw": aw, "stages": 1, "base": True})
    # more than 32 pins (masks and strobes collected in 32-bit intermediates lose the upper pins)
    out.append({"pins": 40, "dw": 16, "aw": _min_aw(40, 16), "stages": 1, "base": True})
    return out


def maker(cfg):
    def make():
        g = gpio.Peripheral(pin_count=cfg["pins"], addr_width=cfg["aw"], data_width=cfg["dw"],
                            input_stages=cfg["stages"])
        regs = {info.path[0][0]: (info.start, info.end) for info in g.bus.memory_map.all_resources()}
        return Harness(g, flat_ports(g), g=g, regs=regs)
    return make


def queries(h, cfg):
    P, dw, stages = cfg["pins"], cfg["dw"], cfg["stages"]
    AW = cfg["aw"]

    def idle(h, f):
        return [f.sig(h.g.bus.r_stb) == 0, f.sig(h.g.bus.w_stb) == 0]

    def wr(h, f, addr, data=None):
        b = h.g.bus
        a = [f.sig(b.addr) == bv(AW, addr), f.sig(b.w_stb) == 1, f.sig(b.r_stb) == 0]
        if data is not None:
            a.append(f.sig(b.w_data) == data)
        return a

    def rd(h, f, addr):
        b = h.g.bus
        return [f.sig(b.addr) == bv(AW, addr), f.sig(b.r_stb) == 1, f.sig(b.w_stb) == 0]

    def write_reg(h, fr, t, name, width):
        """Complete write of register `name` in frames t.. ; returns (assumptions, value written, next frame)."""
        s, e = h.regs[name]
        a = []
        chunks = []
        for j in range(e - s):
            f = fr[t + j]
            a += wr(h, f, s + j)
            chunks.append(f.sig(h.g.bus.w_data))
        val = chunks[0] if len(chunks) == 1 else z3.Concat(*reversed(chunks))
        return a, z3.Extract(width - 1, 0, val), t + (e - s)

    def nchunks(h, name):
        s, e = h.regs[name]
        return e - s

    # ---- (1) mode table ---------------------------------------------------------------------------
    def k_mode(h):
        return nchunks(h, "Mode") + nchunks(h, "Output") + 3

    def mode_table(h, fr):
        a1, MV, t = write_reg(h, fr, 0, "Mode", 2 * P)
        a2, OV, t = write_reg(h, fr, t, "Output", P)
        a = a1 + a2
        for f in fr[t:]:
            a += idle(h, f)
        bad = []
        for f in (fr[t + 1], fr[t + 2]):          # value settled two cycles after the last chunk; stays
            for k in range(P):
                mode = z3.Extract(2 * k + 1, 2 * k, MV)
                ob = z3.Extract(k, k, OV)
                pin = h.g.pins[k]
                o, oe = f.sig(pin.o), f.sig(pin.oe)
                alt = z3.Extract(k, k, f.sig(h.g.alt_mode))
                exp_oe = z3.If(mode == 1, bv(1, 1), z3.If(mode == 2, ~ob, bv(1, 0)))
                bad.append(oe != exp_oe)
                bad.append(alt != z3.If(mode == 3, bv(1, 1), bv(1, 0)))
                bad.append(z3.And(mode == 1, o != ob))
                bad.append(z3.And(mode == 2, oe == 1, o != 0))
        return a, z3.Or(*bad)

    def mode_twin(h, fr):
        a, _ = mode_table(h, fr)
        return a, z3.And(*[is1(fr[-1].sig(h.g.pins[k].oe)) for k in range(P)])

    # ---- (2) SetClr ---------------------------------------------------------------------------------
    def setclr(h, fr):
        a1, OV, t = write_reg(h, fr, 0, "Output", P)
        a2, SV, t = write_reg(h, fr, t, "SetClr", 2 * P)
        a = a1 + a2
        a += idle(h, fr[t]) + idle(h, fr[t + 1]) if False else idle(h, fr[t])
        s, e = h.regs["Output"]
        t += 1
        got = []
        for j in range(e - s):
            a += rd(h, fr[t + j], s + j)
            got.append(fr[t + j + 1].sig(h.g.bus.r_data))
        val = got[0] if len(got) == 1 else z3.Concat(*reversed(got))
        bad = []
        for k in range(P):
            code = z3.Extract(2 * k + 1, 2 * k, SV)         # bit 0 = set, bit 1 = clr
            ob = z3.Extract(k, k, OV)
            exp = z3.If(code == 1, bv(1, 1), z3.If(code == 2, bv(1, 0), ob))
            bad.append(z3.Extract(k, k, val) != exp)
        if val.size() > P:
            bad.append(z3.Extract(val.size() - 1, P, val) != 0)
        return a, z3.Or(*bad)

    def setclr_twice(h, fr):
        """two complete SetClr writes back to back (consecutive cycles when SetClr fits one bus word)"""
        a1, OV, t = write_reg(h, fr, 0, "Output", P)
        a2, S1, t = write_reg(h, fr, t, "SetClr", 2 * P)
        a3, S2, t = write_reg(h, fr, t, "SetClr", 2 * P)
        a = a1 + a2 + a3 + idle(h, fr[t])
        s, e = h.regs["Output"]
        t += 1
        got = []
        for j in range(e - s):
            a += rd(h, fr[t + j], s + j)
            got.append(fr[t + j + 1].sig(h.g.bus.r_data))
        val = got[0] if len(got) == 1 else z3.Concat(*reversed(got))
        bad = []
        for k in range(P):
            ob = z3.Extract(k, k, OV)
            for SV in (S1, S2):
                code = z3.Extract(2 * k + 1, 2 * k, SV)
                ob = z3.If(code == 1, bv(1, 1), z3.If(code == 2, bv(1, 0), ob))
            bad.append(z3.Extract(k, k, val) != ob)
        return a, z3.Or(*bad)

    # ---- (5) sequences of Output / SetClr transactions with no idle cycle in between -----------------------
    def seq_query(ops):
        """ops: tuple over {'OW','SW','OR'}; preceded by an Output write (establishes the state), followed by a final
        Output read.  Reference: a register write completing at frame T (last chunk) is visible to a read whose
        first chunk is issued at frame >= T+2; a read snapshots the Output bits in the frame of its first chunk."""
        def length(h):
            n = nchunks(h, "Output")
            tot = n                                   # initial write
            for op in ops:
                tot += nchunks(h, "SetClr") if op == "SW" else (nchunks(h, "Mode") if op == "MW" else n)
            return tot + 1 + n + 1                    # idle, final read, data

        def build(h, fr):
            a, OV, t = write_reg(h, fr, 0, "Output", P)
            events = [(t - 1 + 2, "O", OV)]           # (effective frame, kind, value)
            reads = []
            for op in ops:
                if op == "OW":
                    a2, V, t = write_reg(h, fr, t, "Output", P)
                    events.append((t - 1 + 2, "O", V))
                elif op == "SW":
                    a2, V, t = write_reg(h, fr, t, "SetClr", 2 * P)
                    events.append((t - 1 + 2, "S", V))
                elif op == "MW":
                    a2, V, t = write_reg(h, fr, t, "Mode", 2 * P)       # a Mode write leaves every Output bit alone
                else:
                    s_, e_ = h.regs["Output"]
                    a2, got = [], []
                    t0 = t
                    for j in range(e_ - s_):
                        a2 += rd(h, fr[t + j], s_ + j)
                        got.append(fr[t + j + 1].sig(h.g.bus.r_data))
                    t += e_ - s_
                    reads.append((t0, got[0] if len(got) == 1 else z3.Concat(*reversed(got))))
                a += a2
            a += idle(h, fr[t])
            t += 1
            s_, e_ = h.regs["Output"]
            got = []
            for j in range(e_ - s_):
                a += rd(h, fr[t + j], s_ + j)
                got.append(fr[t + j + 1].sig(h.g.bus.r_data))
            reads.append((t, got[0] if len(got) == 1 else z3.Concat(*reversed(got))))

            def state_at(frame):
                bits = None
                for eff, kind, V in events:
                    if eff > frame:
                        continue
                    if kind == "O":
                        bits = [z3.Extract(k, k, V) for k in range(P)]
                    elif bits is not None:
                        bits = [z3.If(z3.Extract(2 * k + 1, 2 * k, V) == 1, bv(1, 1),
                                      z3.If(z3.Extract(2 * k + 1, 2 * k, V) == 2, bv(1, 0), bits[k])) for k in range(P)]
                return bits
            bad = []
            for frame, val in reads:
                bits = state_at(frame)
                if bits is None:
                    continue          # read before the first write has landed: nothing known about the free state
                for k in range(P):
                    bad.append(z3.Extract(k, k, val) != bits[k])
            return a, z3.Or(*bad) if bad else z3.BoolVal(False)
        return length, build

    # ---- (6) every cycle: pins follow the table for the mode / output bit in force in that very cycle ----------
    def pins_every_cycle(ops):
        """Mode and Output are written first (state known), then `ops` over {'MW','OW','SW'} back to back; from
        the cycle both values have landed, in EVERY cycle each pin shows the table entry for the Mode / Output
        value in force (a write whose last chunk is at frame T is in force from frame T+2)."""
        def length(h):
            tot = nchunks(h, "Mode") + nchunks(h, "Output")
            for op in ops:
                tot += {"MW": nchunks(h, "Mode"), "OW": nchunks(h, "Output"), "SW": nchunks(h, "SetClr")}[op]
            return tot + 3

        def build(h, fr):
            a, MV, t = write_reg(h, fr, 0, "Mode", 2 * P)
            ev = [(t - 1 + 2, "M", MV)]
            a2, OV, t = write_reg(h, fr, t, "Output", P)
            a += a2
            ev.append((t - 1 + 2, "O", OV))
            known = t - 1 + 2
            for op in ops:
                reg, w = {"MW": ("Mode", 2 * P), "OW": ("Output", P), "SW": ("SetClr", 2 * P)}[op]
                a2, V, t = write_reg(h, fr, t, reg, w)
                a += a2
                ev.append((t - 1 + 2, {"MW": "M", "OW": "O", "SW": "S"}[op], V))
            for f in fr[t:]:
                a += idle(h, f)
            bad = []
            for frame in range(known, len(fr)):
                mode = None
                bits = None
                for eff, kind, V in ev:
                    if eff > frame:
                        continue
                    if kind == "M":
                        mode = V
                    elif kind == "O":
                        bits = [z3.Extract(k, k, V) for k in range(P)]
                    else:
                        bits = [z3.If(z3.Extract(2 * k + 1, 2 * k, V) == 1, bv(1, 1),
                                      z3.If(z3.Extract(2 * k + 1, 2 * k, V) == 2, bv(1, 0), bits[k])) for k in range(P)]
                f = fr[frame]
                for k in range(P):
                    m_ = z3.Extract(2 * k + 1, 2 * k, mode)
                    pin = h.g.pins[k]
                    o, oe = f.sig(pin.o), f.sig(pin.oe)
                    alt = z3.Extract(k, k, f.sig(h.g.alt_mode))
                    bad.append(oe != z3.If(m_ == 1, bv(1, 1), z3.If(m_ == 2, ~bits[k], bv(1, 0))))
                    bad.append(alt != z3.If(m_ == 3, bv(1, 1), bv(1, 0)))
                    bad.append(z3.And(m_ == 1, o != bits[k]))
                    bad.append(z3.And(m_ == 2, oe == 1, o != 0))
            return a, z3.Or(*bad)
        return length, build

    def k_setclr(h):
        return nchunks(h, "Output") * 2 + nchunks(h, "SetClr") + 2

    def setclr_twin(h, fr):
        a, _ = setclr(h, fr)
        n = nchunks(h, "Output")
        return a, z3.Or(*[f.sig(h.g.bus.r_data) != 0 for f in fr[-n:]])

    # ---- (3) input delay ------------------------------------------------------------------------------
    def k_input(h):
        return stages + nchunks(h, "Input") + 1

    def input_delay(h, fr):
        s, e = h.regs["Input"]
        a = []
        for f in fr[:stages]:
            a += idle(h, f)
        got = []
        for j in range(e - s):
            a += rd(h, fr[stages + j], s + j)
            got.append(fr[stages + j + 1].sig(h.g.bus.r_data))
        val = got[0] if len(got) == 1 else z3.Concat(*reversed(got))
        bad = []
        for k in range(P):
            bad.append(z3.Extract(k, k, val) != fr[0].sig(h.g.pins[k].i))
        if val.size() > P:
            bad.append(z3.Extract(val.size() - 1, P, val) != 0)
        return a, z3.Or(*bad)

    def input_twin(h, fr):
        a, _ = input_delay(h, fr)
        return a, fr[stages + 1].sig(h.g.bus.r_data) != 0
    # rooting a free-state counterexample at reset may need the pins configured first (a Mode write, an Output write)
    PFX = nchunks(h, "Mode") + nchunks(h, "Output") + 2
    return [Q("mode-table-all-pins", k_mode(h), mode_table, twin=mode_twin, max_prefix=PFX),
            Q("setclr-codes-all-pins", k_setclr(h), setclr, twin=setclr_twin, max_prefix=PFX),
            Q("input-delayed-exactly", k_input(h), input_delay, twin=input_twin, max_prefix=PFX),
            Q("two-setclr-writes-back-to-back", k_setclr(h) + nchunks(h, "SetClr"), setclr_twice, max_prefix=PFX)] + \
        ([Q("seq-" + "-".join(ops), seq_query(ops)[0](h), seq_query(ops)[1], max_prefix=PFX)
          for ops in (("SW", "OR"), ("SW", "OW"), ("OW", "SW"), ("SW", "OR", "SW"), ("OR", "SW", "OW"), ("SW", "SW", "OR"),
                      ("OW", "OR"), ("SW", "OW", "OR"), ("MW",), ("MW", "OR", "MW"), ("SW", "MW"))] if ((stages == 2 and cfg.get("base")) or P >= 17) else []) + \
        ([Q("pins-every-cycle-" + "-".join(ops), pins_every_cycle(ops)[0](h), pins_every_cycle(ops)[1], max_prefix=PFX)
          for ops in (("MW",), ("MW", "OW"), ("SW", "MW"), ("OW", "MW", "SW"))] if (stages == 2 and P <= 5 and cfg.get("base")) else [])


def _geometry(cfg):
    """every register spans the bus words its documented width needs (Mode, SetClr: 2 bits per pin; Input, Output: 1)"""
    h = maker(cfg)()
    bad = []
    for k_, pin in enumerate(h.g.pins):
        if (len(pin.i), len(pin.o), len(pin.oe)) != (1, 1, 1):
            bad.append(f"pin {k_}: i/o/oe are {len(pin.i)}/{len(pin.o)}/{len(pin.oe)} bits wide, a pin is one bit")
            break
    if len(h.g.alt_mode) != cfg["pins"]:
        bad.append(f"alt_mode is {len(h.g.alt_mode)} bits wide for {cfg['pins']} pins")
    for name, bits in (("Mode", 2 * cfg["pins"]), ("Input", cfg["pins"]), ("Output", cfg["pins"]), ("SetClr", 2 * cfg["pins"])):
        s_, e_ = h.regs[name]
        need = -(-bits // cfg["dw"])
        if (e_ - s_) * cfg["dw"] < bits or (e_ - s_) >= 2 * max(need, 1) and (e_ - s_) > 1:
            bad.append(f"{name}: {e_ - s_} words for {bits} bits on a {cfg['dw']}-bit bus")
    return bad


def check(cfg, out, stats):
    import sys
    try:
        bad = _geometry(cfg)
    except (ValueError, TypeError):
        bad = []          # (a refused configuration is reported by run_queries)
    if bad:
        from ..bmc import mark_violation
        from ..e1 import cfg_key
        mark_violation("register-geometry")
        out.violations.append({"key": f"register-geometry@{cfg_key(cfg)}",
                               "what": f"C16 a register does not span the bus words its width needs: {'; '.join(bad)} "
                                       f"({cfg_key(cfg)})", "query": "geometry", "cfg": cfg, "stimulus": [], "prefix": 0,
                               "k": 0, "detail": {}})
        return
    run_queries(sys.modules[__name__], cfg, out, stats, cosim_cycles=24)


def replay(v):
    import sys
    if v["query"] == "geometry":
        return bool(_geometry(v["cfg"]))
    return _replay(sys.modules[__name__], v)
