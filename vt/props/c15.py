"""C15 - Wishbone SRAM behaves as a memory with a one-cycle, single acknowledge.

E1: WishboneSRAM + Amaranth's Memory read/write ports are translated; the memory array is part of
the FREE state, so every init image and every reachable content is covered.  Exact one-step
functions for ack, read data and the whole array => read-your-writes over all histories.
"""
import random

import z3

from amaranth_soc.wishbone.sram import WishboneSRAM

from ..bmc import Harness, flat_ports, is1, bv
from ..e1 import Q, run_queries, replay as _replay

PROPERTY = "C15"
LEVEL = "model_checking"
META = {
    "engine": "E1 nir2smt (NIR netlist incl. Memory/SyncWritePort/SyncReadPort cells -> z3 QF_BV)",
    "encoded": ["wishbone.sram.WishboneSRAM.__init__", "wishbone.sram.WishboneSRAM.elaborate",
                "amaranth.lib.memory.Memory read_port/write_port (through NIR memory cells)"],
    "also": 'init images full / short / one word / empty, given as list / tuple / generator / iterator / map, optionally replaced through the init attribute, values also as negative (twos-complement) integers, no init argument at all, a second instance of the same geometry given an image meanwhile; 128x8 and 64x32 memories; geometry obligation',
    "bounds": "2 frames from a free state (FFs, read-port register and every memory row symbolic) + 1 frame from "
              "reset; size 2..16 granules (thorough 2..64), data width 8-64, granularity <= data width, "
              "writable and read-only",
    "outside": "behaviour under rst; sizes > 64 granules; dat_r during write transfers (unspecified)",
    "assumptions": ["single clock domain, rst low", "Amaranth Memory semantics as encoded: non-transparent "
                    "registered read port, granular write enables (co-simulated against pysim per configuration)"],
}


def configs(tier, seed):
    out = []
    sizes = [2, 4, 8, 16] if tier == "quick" else [2, 4, 8, 16, 32, 64]
    for dw in (8, 16, 32, 64):
        for gran in (8, 16, 32, 64):
            if gran > dw:
                continue
            for size in sizes:
                if size * gran < dw:
                    continue
                depth = size * gran // dw
                if tier == "quick" and (depth > 8 or (dw == 64 and gran == 8 and size > 8)):
                    continue
                if depth > 16:
                    continue
                for writable in (True, False):
                    # the init image is an ITERABLE: handed over as list, tuple, generator, iterator or map object
                    form = ["list", "gen", "tuple", "iter", "map"][(len(out)) % 5]
                    # image length: full, short (rest reads zero), empty; optionally replaced later through `.init`
                    length = ["full", "short", "full", "one", "empty"][(len(out) // 2) % 5]
                    out.append({"size": size, "dw": dw, "gran": gran, "writable": writable, "pat": seed + 1, "init": form,
                                "len": length, "reinit": [None, None, "short", "empty"][(len(out) // 3) % 4],
                                # image values handed over as NEGATIVE integers (two's complement of the same row)
                                "neg": len(out) % 4 == 1})
    # no init argument at all (the default image), optionally after ANOTHER instance of the same geometry was built
    # without one and then given an image through `.init`: instances must not share their contents
    for k, (size, dw, gran) in enumerate(((4, 8, 8), (8, 32, 8), (16, 16, 16), (8, 64, 16))):
        for other in (False, True):
            out.append({"size": size, "dw": dw, "gran": gran, "writable": bool(k % 2) or other, "pat": seed + 1,
                        "init": "default", "len": "empty", "reinit": None, "other": other})
    out.append({"size": 128, "dw": 8, "gran": 8, "writable": True, "pat": seed + 1, "init": "list"})
    out.append({"size": 256, "dw": 32, "gran": 8, "writable": True, "pat": seed + 1, "init": "gen"})
    return out


def _cut(vals, how):
    n = {"full": len(vals), "short": max(1, len(vals) // 3), "one": 1, "empty": 0}[how or "full"]
    return vals[:n]


def _pattern(cfg, final=True):
    """final=True: the image the memory must hold after construction (and re-assignment), zero-filled."""
    rnd = random.Random(cfg["pat"] * 7919 + cfg["size"])
    depth = cfg["size"] * cfg["gran"] // cfg["dw"]
    first = _cut([rnd.getrandbits(cfg["dw"]) | 1 for _ in range(depth)], cfg.get("len"))
    second = None
    if cfg.get("reinit"):
        second = _cut([rnd.getrandbits(cfg["dw"]) | 1 for _ in range(depth)], cfg["reinit"])
    if not final:
        return first, second
    img = second if second is not None else first
    return list(img) + [0] * (depth - len(img))


def maker(cfg):
    def make():
        pat, second = _pattern(cfg, final=False)
        if cfg.get("neg"):
            pat = [v - (1 << cfg["dw"]) if i % 2 == 0 else v for i, v in enumerate(pat)]
            second = None if second is None else [v - (1 << cfg["dw"]) if i % 2 else v for i, v in enumerate(second)]
        form = cfg.get("init", "list")
        if form == "default":
            if cfg.get("other"):
                rnd = random.Random(cfg["pat"])
                other = WishboneSRAM(size=cfg["size"], data_width=cfg["dw"], granularity=cfg["gran"], writable=cfg["writable"])
            dut = WishboneSRAM(size=cfg["size"], data_width=cfg["dw"], granularity=cfg["gran"], writable=cfg["writable"])
            if cfg.get("other"):
                other.init = [rnd.getrandbits(cfg["dw"]) | 1 for _ in range(cfg["size"] * cfg["gran"] // cfg["dw"])]
        else:
            init = {"list": lambda: list(pat), "tuple": lambda: tuple(pat), "gen": lambda: (v for v in pat),
                    "iter": lambda: iter(pat), "map": lambda: map(int, pat)}[form]()
            dut = WishboneSRAM(size=cfg["size"], data_width=cfg["dw"], granularity=cfg["gran"],
                               writable=cfg["writable"], init=init)
        if second is not None:
            dut.init = second          # a new image through the public attribute replaces the old one entirely
        res = list(dut.wb_bus.memory_map.resources())
        md = res[0][0].data
        return Harness(dut, flat_ports(dut), dut=dut, md=md, mems=[(md, None)])
    return make


def queries(h, cfg):
    dw, gran = cfg["dw"], cfg["gran"]
    depth = cfg["size"] * gran // dw
    nsel = dw // gran

    def req(h, f):
        b = h.dut.wb_bus
        return z3.And(f.sig(b.ack) == 0, is1(f.sig(b.cyc)), is1(f.sig(b.stb)))

    def rowsel(adr, r):
        return z3.BoolVal(r == 0) if adr is None else adr == bv(adr.size(), r)

    def ack_step(h, fr):
        b = h.dut.wb_bus
        f0, f1 = fr
        exp = z3.And(f0.sig(b.ack) == 0, is1(f0.sig(b.cyc)), is1(f0.sig(b.stb)))
        return [], is1(f1.sig(b.ack)) != exp

    def read(h, fr):
        b = h.dut.wb_bus
        f0, f1 = fr
        adr = f0.sig(b.adr)
        exp = bv(dw, 0)
        for r in reversed(range(depth)):
            exp = z3.If(rowsel(adr, r), f0.mem_row(h.md, r), exp)
        return [req(h, f0), f0.sig(b.we) == 0], f1.sig(b.dat_r) != exp

    def write(h, fr):
        b = h.dut.wb_bus
        f0, f1 = fr
        adr = f0.sig(b.adr)
        doit = z3.And(req(h, f0), is1(f0.sig(b.we)), z3.BoolVal(bool(cfg["writable"])))
        sel = f0.sig(b.sel)
        dat = f0.sig(b.dat_w)
        bad = []
        for r in range(depth):
            old = f0.mem_row(h.md, r)
            lanes = []
            for l in range(nsel):
                lo, hi = l * gran, (l + 1) * gran - 1
                take = z3.And(doit, rowsel(adr, r), z3.Extract(l, l, sel) == 1)
                lanes.append(z3.If(take, z3.Extract(hi, lo, dat), z3.Extract(hi, lo, old)))
            exp = lanes[0] if nsel == 1 else z3.Concat(*reversed(lanes))
            bad.append(f1.mem_row(h.md, r) != exp)
        return [], z3.Or(*bad)

    def write_twin(h, fr):
        f0, f1 = fr
        if not cfg["writable"]:
            return [], is1(fr[1].sig(h.dut.wb_bus.ack))
        return [], z3.Or(*[f1.mem_row(h.md, r) != f0.mem_row(h.md, r) for r in range(depth)])

    pat = _pattern(cfg)

    def image(h, fr):
        f = fr[0]
        return [], z3.Or(is1(f.sig(h.dut.wb_bus.ack)),
                         *[f.mem_row(h.md, r) != bv(dw, pat[r]) for r in range(depth)])

    return [
        Q("ack-exact-step", 2, ack_step, twin=lambda h, fr: ([], is1(fr[1].sig(h.dut.wb_bus.ack)))),
        Q("read-returns-addressed-row", 2, read,
          twin=lambda h, fr: ([req(h, fr[0]), fr[0].sig(h.dut.wb_bus.we) == 0], fr[1].sig(h.dut.wb_bus.dat_r) != 0)),
        Q("write-updates-exactly-selected-granules", 2, write, twin=write_twin),
        Q("reset-image", 1, image, init="reset"),
    ]


def _map_frozen(cfg):
    """the SRAM's memory map is final: nothing can be added to it behind the SRAM's back"""
    from amaranth.lib import wiring

    class Extra(wiring.Component):
        def __init__(self):
            super().__init__({})
    mm = maker(cfg)().dut.wb_bus.memory_map
    try:
        mm.add_resource(Extra(), name=("extra",), size=1)
    except ValueError as e:
        return "frozen" in str(e)       # (the map is also FULL: a refusal for lack of space proves nothing)
    return False


def _independent(cfg):
    """a never-elaborated instance accepts a new image whatever happened to other instances before"""
    from amaranth.hdl import Fragment
    try:
        Fragment.get(maker(cfg)().top, None)
        maker(cfg)()
        return True
    except Exception:
        return False


def check(cfg, out, stats):
    if cfg.get("init") == "default" and not _map_frozen(cfg):
        from ..bmc import mark_violation
        from ..e1 import cfg_key
        mark_violation("map-frozen")
        out.violations.append({"key": f"map-frozen@{cfg_key(cfg)}",
                               "what": f"C15 the SRAM's memory map still accepts resources ({cfg_key(cfg)})", "query": "map-frozen",
                               "cfg": cfg, "stimulus": [], "prefix": 0, "k": 0, "detail": {}})
        return
    if cfg.get("other") and not _independent(cfg):
        from ..bmc import mark_violation
        from ..e1 import cfg_key
        mark_violation("instances-independent")
        out.violations.append({"key": f"instances-independent@{cfg_key(cfg)}",
                               "what": f"C15 after one SRAM was elaborated, assigning .init of ANOTHER, never elaborated "
                                       f"instance of the same geometry fails ({cfg_key(cfg)})", "query": "independent",
                               "cfg": cfg, "stimulus": [], "prefix": 0, "k": 0, "detail": {}})
        return
    h = maker(cfg)()
    exp_depth = cfg["size"] * cfg["gran"] // cfg["dw"]
    if h.md.depth != exp_depth:
        from ..bmc import mark_violation
        from ..e1 import cfg_key
        mark_violation("memory-geometry")
        out.violations.append({"key": f"memory-geometry@{cfg_key(cfg)}",
                               "what": f"C15 the SRAM's memory array has {h.md.depth} rows, its geometry promises {exp_depth} "
                                       f"({cfg_key(cfg)})", "query": "geometry", "cfg": cfg, "stimulus": [], "prefix": 0,
                               "k": 0, "detail": {}})
        return
    run_queries(__import__(__name__, fromlist=["x"]), cfg, out, stats, cosim_cycles=24)


def replay(v):
    if v["query"] == "map-frozen":
        return not _map_frozen(v["cfg"])
    if v["query"] == "independent":
        return not _independent(v["cfg"])
    if v["query"] == "geometry":
        return maker(v["cfg"])().md.depth != v["cfg"]["size"] * v["cfg"]["gran"] // v["cfg"]["dw"]
    return _replay(__import__(__name__, fromlist=["x"]), v)
