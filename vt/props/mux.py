"""Shared machinery for C04 / C05 (csr.Multiplexer): layout family, harness, protocol conformance."""
import random

import z3
from amaranth import Module
from amaranth.lib import wiring
from amaranth.lib.wiring import Out

from amaranth_soc import csr
from amaranth_soc.memory import MemoryMap

from ..bmc import Harness, flat_ports, is1, bv, in_range, zext, slice_zext

OVERLAPS = [None, 0, 1, 2, 3]


class StubReg(wiring.Component):
    """A register that is only an ``element`` port (as the repository's own tests do): its r_data is
    a free input in every cycle."""
    def __init__(self, width, access):
        super().__init__({"element": Out(csr.Element.Signature(width, access))})

    def elaborate(self, platform):
        return Module()


def build_map(cfg, hold_back=0, mm=None, regs=None, start=0):
    """hold_back = number of trailing registers NOT added yet (added later by finish_map, after the
    multiplexer object exists)."""
    if mm is None:
        mm = MemoryMap(addr_width=cfg["aw"], data_width=cfg["dw"], alignment=cfg["align"])
        regs = []
    todo = cfg["regs"][start:len(cfg["regs"]) - hold_back]
    for i, r in enumerate(todo, start):
        if cfg.get("probe") and r.get("addr") is not None:
            mm.decode_address(r["addr"])           # "is this slot free?" - a query before the add
        reg = StubReg(r["w"], csr.Element.Access(r["acc"]) if i % 2 else r["acc"])
        need = max(1, -(-r["w"] // cfg["dw"]))
        mm.add_resource(reg, name=(f"r{i}",), size=need + r.get("pad", 0), addr=r.get("addr"),
                        alignment=r.get("ralign"))
        regs.append(reg)
    return mm, regs


def layouts(tier, seed, salt):
    """Deterministic family of (valid) register layouts x shadow-sharing limits."""
    rnd = random.Random(seed * 1000 + salt)
    max_chunks = 4 if tier == "quick" else 6
    out = []

    def add(dw, aw, align, regs, ovs=OVERLAPS, long_ok=False):
        cfg = {"dw": dw, "aw": aw, "align": align, "regs": regs}
        try:
            mm, rr = build_map(cfg)
        except ValueError:
            return False
        if not long_ok and any(e - s > max_chunks for _, _, (s, e) in mm.resources()):
            return False
        for ov in ovs:
            k = len(out)
            out.append(dict(cfg, ov=ov, late=(k % 5 == 3), probe=(k % 7 == 2), second=(k % 11 == 5)))
        return True
    # hand-picked layouts: unaligned multi-chunk registers, padding, zero width, mixed access
    add(8, 4, 0, [{"w": 8, "acc": "rw"}, {"w": 20, "acc": "rw", "addr": 1}, {"w": 16, "acc": "r", "addr": 5},
                  {"w": 30, "acc": "rw", "addr": 8}])
    add(8, 4, 0, [{"w": 24, "acc": "rw", "addr": 0}, {"w": 20, "acc": "rw", "addr": 5}, {"w": 16, "acc": "w", "addr": 9},
                  {"w": 30, "acc": "rw", "addr": 12}])
    add(8, 5, 2, [{"w": 20, "acc": "rw"}, {"w": 8, "acc": "rw"}, {"w": 0, "acc": "rw"}, {"w": 9, "acc": "r"}])
    add(8, 4, 0, [{"w": 8, "acc": "rw", "addr": 0}, {"w": 16, "acc": "rw", "addr": 1}])        # finding D4's layout
    add(8, 4, 0, [{"w": 8, "acc": "rw", "addr": 0}, {"w": 16, "acc": "rw", "addr": 1}, {"w": 32, "acc": "rw", "addr": 3}])
    add(16, 4, 1, [{"w": 17, "acc": "rw"}, {"w": 1, "acc": "w"}, {"w": 33, "acc": "r", "pad": 1}])
    add(8, 3, 0, [{"w": 24, "acc": "rw", "addr": 1}, {"w": 24, "acc": "rw", "addr": 4}])
    add(8, 5, 0, [{"w": 24, "acc": "rw", "addr": 3}, {"w": 40, "acc": "rw", "addr": 9} if max_chunks >= 5 else {"w": 24, "acc": "r", "addr": 9},
                  {"w": 8, "acc": "rw", "addr": 1}])
    # larger geometries (wide bus, high addresses, long registers) - few, in both tiers
    add(32, 6, 0, [{"w": 33, "acc": "rw", "addr": 40}, {"w": 96, "acc": "rw", "addr": 57}, {"w": 1, "acc": "w", "addr": 63}], ovs=[None, 0])
    add(64, 4, 1, [{"w": 65, "acc": "rw"}, {"w": 64, "acc": "r"}, {"w": 130, "acc": "rw", "addr": 12}], ovs=[None, 1])
    # CSR buses of any positive width are legal: 12, 7, 24 bits
    add(12, 4, 0, [{"w": 30, "acc": "rw"}, {"w": 12, "acc": "r"}, {"w": 25, "acc": "rw", "addr": 9}], ovs=[None, 0])
    add(7, 4, 1, [{"w": 20, "acc": "rw"}, {"w": 1, "acc": "w"}, {"w": 15, "acc": "r"}], ovs=[None, 1])
    add(24, 3, 0, [{"w": 49, "acc": "rw", "addr": 1}, {"w": 24, "acc": "rw"}], ovs=[None, 0])
    add(8, 8, 0, [{"w": 24, "acc": "rw", "addr": 201}, {"w": 8, "acc": "rw", "addr": 255}, {"w": 16, "acc": "rw", "addr": 127}], ovs=[None, 0])
    # registers of 5 and 8 bus words (both tiers; the random part of the quick tier stops at 4 words)
    add(8, 5, 0, [{"w": 64, "acc": "rw"}, {"w": 8, "acc": "r"}], ovs=[None], long_ok=True)
    add(8, 5, 0, [{"w": 8, "acc": "rw"}, {"w": 40, "acc": "r", "addr": 8}, {"w": 16, "acc": "rw"}], ovs=[None, 1], long_ok=True)
    # shadows with many chunks (9 and 17 one-word registers without sharing; 1+4+1 words spread by alignment)
    add(8, 5, 0, [{"w": 7, "acc": "r", "ralign": 2}, {"w": 32, "acc": "r", "ralign": 2}, {"w": 1, "acc": "r"}], ovs=[0, None])
    add(8, 5, 0, [{"w": 8, "acc": "rw"} for _ in range(9)], ovs=[0])
    add(8, 5, 0, [{"w": 5, "acc": "r" if i % 3 else "rw"} for i in range(17)], ovs=[0, 1])
    # addresses far above 256 (10- and 16-bit address spaces), up to the very last address
    add(8, 10, 0, [{"w": 16, "acc": "rw", "addr": 0x102}, {"w": 8, "acc": "r", "addr": 0x204}, {"w": 24, "acc": "rw", "addr": 0x3fd}],
        ovs=[None, 0])
    add(16, 16, 0, [{"w": 32, "acc": "rw", "addr": 0xfffe}, {"w": 16, "acc": "rw", "addr": 0x8000}, {"w": 1, "acc": "w", "addr": 0x1234}],
        ovs=[None, 1])
    # a tightly packed 3-bit space whose shadow is doubled up to the WHOLE address space by a small sharing limit
    # while an unaligned two-word register still shares a chunk with its neighbour
    add(8, 3, 0, [{"w": 8, "acc": "r"}, {"w": 16, "acc": "rw"}, {"w": 8, "acc": "r"}, {"w": 5, "acc": "r"}], ovs=[1, 0, 2])
    add(8, 4, 0, [{"w": 8, "acc": "rw", "addr": 0}, {"w": 8, "acc": "r", "addr": 1}, {"w": 8, "acc": "rw", "addr": 2},
                  {"w": 16, "acc": "rw", "addr": 3}, {"w": 8, "acc": "r", "addr": 5}, {"w": 24, "acc": "rw", "addr": 9},
                  {"w": 8, "acc": "rw", "addr": 12}], ovs=[1])
    if max_chunks >= 6:
        add(8, 6, 0, [{"w": 48, "acc": "rw", "addr": 5}, {"w": 40, "acc": "rw", "addr": 13}, {"w": 8, "acc": "rw", "addr": 4}])
    want = 90 if tier == "quick" else 1000
    widths = lambda dw: [0, 1, dw - 1, dw, dw + 1, 2 * dw, 2 * dw + 3, 3 * dw, 4 * dw] + \
        ([5 * dw + 1, 6 * dw] if tier == "thorough" else [])
    tries = 0
    base = len(out)
    while (len(out) - base) < want * len(OVERLAPS) and tries < want * 40:
        tries += 1
        dw = rnd.choice([8, 8, 16] if tier == "quick" else [8, 8, 16, 32])
        aw = rnd.randint(3, 5)
        align = rnd.choice([0, 0, 0, 1, 2])
        regs = []
        for i in range(rnd.randint(1, 4)):
            r = {"w": rnd.choice(widths(dw)), "acc": rnd.choice(["r", "w", "rw", "rw"])}
            mode = rnd.choice(["implicit", "implicit", "explicit", "explicit", "ralign", "pad"])
            if mode == "explicit":
                r["addr"] = rnd.randrange(0, 1 << aw, 1 << align)
            elif mode == "ralign":
                r["ralign"] = rnd.randint(0, 2)
            elif mode == "pad":
                r["pad"] = rnd.randint(1, 2)
            regs.append(r)
        if tier == "quick":
            add(dw, aw, align, regs, ovs=[rnd.choice(OVERLAPS), rnd.choice(OVERLAPS)])
        else:
            add(dw, aw, align, regs)
    return out


def maker(cfg):
    def make():
        late = 1 if (cfg.get("late") and len(cfg["regs"]) > 1) else 0
        mm, regs = build_map(cfg, hold_back=late)
        mux = csr.Multiplexer(mm, shadow_overlaps=cfg["ov"])
        if late:
            # the memory map is still extensible: a register added after the multiplexer object was created
            build_map(cfg, mm=mm, regs=regs, start=len(cfg["regs"]) - late)
        if cfg.get("second"):
            # the multiplexer has already been elaborated once (converted, simulated); the checked netlist is the
            # second elaboration of the same object
            from amaranth.hdl import Fragment
            Fragment.get(mux, None)
        return Harness(mux, flat_ports(mux, *regs), mux=mux, regs=regs, mm=mm)
    return make


def reg_ranges(h):
    """[(reg, start, end)] from the memory map (the public oracle)."""
    out = []
    for reg in h.regs:
        info = h.mm.find_resource(reg)
        out.append((reg, info.start, info.end))
    return out


def mapped(h, A, readable=None, writable=None):
    alts = []
    for reg, s, e in reg_ranges(h):
        if readable and not reg.element.access.readable():
            continue
        if writable and not reg.element.access.writable():
            continue
        alts.append(in_range(A, s, e))
    return z3.Or(*alts) if alts else z3.BoolVal(False)


def conf_single(h, frames, R, start, end, first_read_at0=False):
    """Conf(R) over the window: strobes only at addresses of R or unmapped addresses; reads that hit
    R strictly ascending, writes likewise (each stream on its own)."""
    bus = h.mux.bus
    W = bus.addr_width + 2
    cons = []
    last_r = bv(W, (1 << W) - 1) if not first_read_at0 else None     # "none yet" encoded as max: handled below
    seen_r = z3.BoolVal(False)
    seen_w = z3.BoolVal(False)
    lr = bv(W, 0)
    lw = bv(W, 0)
    for t, f in enumerate(frames):
        A = zext(f.sig(bus.addr), W)
        rs, ws = is1(f.sig(bus.r_stb)), is1(f.sig(bus.w_stb))
        inR = z3.And(z3.UGE(A, bv(W, start)), z3.ULT(A, bv(W, end)))
        unm = z3.Not(mapped(h, f.sig(bus.addr)))
        cons.append(z3.Implies(z3.Or(rs, ws), z3.Or(inR, unm)))
        cons.append(z3.Implies(z3.And(rs, inR, seen_r), z3.UGT(A, lr)))
        cons.append(z3.Implies(z3.And(ws, inR, seen_w), z3.UGT(A, lw)))
        lr = z3.If(z3.And(rs, inR), A, lr)
        lw = z3.If(z3.And(ws, inR), A, lw)
        seen_r = z3.Or(seen_r, z3.And(rs, inR))
        seen_w = z3.Or(seen_w, z3.And(ws, inR))
    return cons


def conf_streams(bus, ranges, frames):
    """Conforming read stream and write stream over a run: `ranges` = [(readable, writable, start, end)].
    Each stream starts a transaction at a register's first address; reads continue strictly ascending,
    writes at consecutive addresses, inside that register; anything at unmapped addresses."""
    W = bus.addr_width + 2
    cons = []
    for kind in ("r", "w"):
        regs = [(s, e) for rd, wr, s, e in ranges if (rd if kind == "r" else wr)]
        valid = z3.BoolVal(False)
        cs, ce, last = bv(W, 0), bv(W, 0), bv(W, 0)
        for f in frames:
            A = zext(f.sig(bus.addr), W)
            stb = is1(f.sig(bus.r_stb if kind == "r" else bus.w_stb))
            hits = z3.Or(*[z3.And(z3.UGE(A, bv(W, s)), z3.ULT(A, bv(W, e))) for s, e in regs]) if regs else z3.BoolVal(False)
            begins = z3.Or(*[A == bv(W, s) for s, e in regs]) if regs else z3.BoolVal(False)
            if kind == "r":
                cont = z3.And(valid, z3.UGE(A, cs), z3.ULT(A, ce), z3.UGT(A, last))
            else:
                cont = z3.And(valid, z3.UGE(A, cs), z3.ULT(A, ce), A == last + 1)
            cons.append(z3.Implies(z3.And(stb, hits), z3.Or(begins, cont)))
            act = z3.And(stb, hits)
            ncs, nce = cs, ce
            for s, e in regs:
                ncs = z3.If(z3.And(act, A == bv(W, s)), bv(W, s), ncs)
                nce = z3.If(z3.And(act, A == bv(W, s)), bv(W, e), nce)
            cs, ce = ncs, nce
            last = z3.If(act, A, last)
            valid = z3.Or(valid, act)
    return cons
