"""Check driver: shard configurations over processes, aggregate, write evidence, report."""
import json
import multiprocessing
import os
import sys
import time
import traceback

VERIF = os.path.dirname(os.path.dirname(os.path.abspath(__file__)))
OUT = os.environ.get("VERIF_OUT", VERIF)     # evidence/ and replays/ go here (mutation runs redirect it)
NPROC = int(os.environ.get("VERIF_JOBS", "16"))


def repo_path():
    return os.environ.get("VERIF_REPO", "/repo")


def jsonable(x):
    if isinstance(x, dict):
        return {str(k): jsonable(v) for k, v in x.items()}
    if isinstance(x, (list, tuple, set, frozenset)):
        return [jsonable(v) for v in x]
    if isinstance(x, (str, int, float, bool)) or x is None:
        return x
    return repr(x)


class Outcome:
    """What one configuration produced (picklable)."""
    def __init__(self, cfg):
        self.cfg = cfg
        self.stats = None
        self.violations = []      # dicts: {key, what, query, cfg, replay:{...}}
        self.error = None         # inconclusive / harness error text
        self.skipped = None
        self.extra = {}


def _worker(args):
    mod_name, cfg = args
    import importlib
    mod = importlib.import_module(mod_name)
    out = Outcome(cfg)
    from .bmc import Inconclusive, Stats
    from .nir2smt import Unsupported
    stats = Stats()
    out.stats = stats
    try:
        sys.setrecursionlimit(3000)
        mod.check(cfg, out, stats)
    except Inconclusive as e:
        out.error = f"inconclusive: {e}"
    except Unsupported as e:
        out.error = f"unsupported by the encoding: {e}"
    except Exception as e:
        site = library_fault_site(e)
        if site is not None:
            # the exception comes out of amaranth_soc (or out of amaranth, called from amaranth_soc) while the harness
            # was making a call that is legal on the unchanged tree: an internal error of the library, not of the
            # harness.  (On the unchanged tree no check raises, so this can only be caused by the change under test.)
            from .bmc import mark_violation
            from .e1 import cfg_key
            key = f"internal-error:{type(e).__name__}:{site}"
            mark_violation(key)
            out.violations.append({"key": f"{key}@{cfg_key(cfg)}",
                                   "what": f"{mod.PROPERTY} the library fails with {type(e).__name__}: {str(e)[:120]} "
                                           f"(raised in {site}) on a use that is legal on the unchanged tree ({cfg_key(cfg)})",
                                   "query": "internal-error", "exc": type(e).__name__, "site": site, "cfg": cfg,
                                   "stimulus": [], "prefix": 0, "k": 0, "detail": {}})
        else:
            out.error = f"harness error: {type(e).__name__}: {e}\n{traceback.format_exc(limit=8)}"
    except RecursionError as e:   # pragma: no cover
        out.error = f"harness error: RecursionError"
    return out


def library_fault_site(exc):
    """'file.py:function' of the innermost amaranth_soc frame if the traceback leaves the harness (/verif/vt) and ends
    in amaranth_soc or in code called from it; None if the exception was raised by the harness itself or by a library
    the harness called directly."""
    tb = traceback.extract_tb(exc.__traceback__)
    if any(os.path.basename(fr.filename) == "symex.py" for fr in tb):
        # under symbolic execution an exception inside the library may be an artefact of the proxies (an operation they
        # do not support): only a concrete replay can blame the library, and the engine does that itself
        return None
    here = os.path.dirname(os.path.abspath(__file__)) + os.sep
    last_own = max((i for i, fr in enumerate(tb) if os.path.abspath(fr.filename).startswith(here)), default=-1)
    site = None
    for fr in tb[last_own + 1:]:
        if (os.sep + "amaranth_soc" + os.sep) in fr.filename:
            site = f"{os.path.basename(fr.filename)}:{fr.name}"
    return site


def replay_internal_error(mod, v):
    """re-run the configuration on the current tree: reproduced iff the same kind of exception leaves the library"""
    from .bmc import Stats
    if v.get("query") == "internal-error-configs":
        try:
            list(mod.configs(v["cfg"]["tier"], v["cfg"]["seed"]))
        except Exception as e:
            return type(e).__name__ == v.get("exc") and library_fault_site(e) is not None
        return False
    out = Outcome(v["cfg"])
    try:
        mod.check(v["cfg"], out, Stats())
    except Exception as e:
        return type(e).__name__ == v.get("exc") and library_fault_site(e) is not None
    return False


def _run_forked(mod, work, nproc, seen_event, deadline):
    """One forked child per configuration (imports are already warm), results over a pipe.
    The parent enforces a hard wall-clock deadline per child - z3's own timeout is not reliable in
    every phase - and, once a violation has been confirmed somewhere, gives the rest a short grace."""
    import pickle
    import select
    pending = list(reversed(work))
    running = {}          # fd -> (pid, task, start, buffer)
    results = []
    grace_until = None
    while pending or running:
        while pending and len(running) < nproc:
            task = pending.pop()
            r, w = os.pipe()
            pid = os.fork()
            if pid == 0:
                os.close(r)
                try:
                    out = _worker(task)
                    data = pickle.dumps(out)
                except BaseException as e:      # noqa
                    o = Outcome(task[1])
                    o.error = f"harness error: {type(e).__name__}: {e}"
                    data = pickle.dumps(o)
                with os.fdopen(w, "wb") as f:
                    f.write(data)
                os._exit(0)
            os.close(w)
            running[r] = [pid, task, time.time(), b""]
        if seen_event.is_set() and grace_until is None:
            grace_until = time.time() + 45
            pending.clear()
        rl, _, _ = select.select(list(running), [], [], 0.5)
        for fd in rl:
            chunk = os.read(fd, 1 << 20)
            if chunk:
                running[fd][3] += chunk
                continue
            pid, task, t0, buf = running.pop(fd)
            os.close(fd)
            os.waitpid(pid, 0)
            try:
                results.append(pickle.loads(buf))
            except Exception:
                o = Outcome(task[1])
                o.error = "worker process died without a result (crash or out of memory)"
                results.append(o)
        now = time.time()
        for fd in list(running):
            pid, task, t0, buf = running[fd]
            over = now - t0 > deadline
            if over or (grace_until is not None and now > grace_until):
                try:
                    os.kill(pid, 9)
                except OSError:
                    pass
                os.waitpid(pid, 0)
                os.close(fd)
                running.pop(fd)
                o = Outcome(task[1])
                if over:
                    o.error = f"configuration exceeded the hard deadline of {deadline} s"
                else:
                    o.skipped = "cancelled: a violation was already confirmed for another configuration"
                results.append(o)
    return results


def load_known():
    p = os.path.join(VERIF, "known_findings.json")
    if not os.path.exists(p):
        return []
    with open(p) as f:
        return json.load(f).get("findings", [])


def run_check(mod, tier, seed):
    t0 = time.time()
    from .bmc import Stats
    pid = mod.PROPERTY
    pre_violation = None
    try:
        cfgs = list(mod.configs(tier, seed))
    except Exception as e:
        # some families build (and elaborate) candidate configurations while enumerating them; an exception that leaves
        # the library there is an internal error on a legal use, like the ones caught per configuration below
        site = library_fault_site(e)
        if site is None:
            raise
        cfgs = []
        pre_violation = {"key": f"internal-error:configs:{type(e).__name__}:{site}",
                         "what": f"{pid} the library fails with {type(e).__name__}: {str(e)[:120]} (raised in {site}) while the "
                                 f"configuration family is being enumerated (constructing / elaborating legal configurations)",
                         "query": "internal-error-configs", "exc": type(e).__name__, "cfg": {"tier": tier, "seed": seed},
                         "stimulus": [], "prefix": 0, "k": 0, "detail": {}}
    mod._ALL_CONFIGS = cfgs          # (siblings that are elaborated before a configuration: see e1.history_of)
    total = Stats()
    violations = []
    errors = []
    skipped = 0
    extras = []
    work = [(mod.__name__, c) for c in cfgs]
    nproc = min(NPROC, max(1, len(work)))
    from . import bmc as _bmc
    _bmc.VIOLATION_SEEN = multiprocessing.get_context("fork").Event()
    _bmc.CROSS_CHECK = 40 if tier == "thorough" else 0
    _bmc.KNOWN_KEYS = {k["key"] for k in load_known() if k.get("property") == pid and k.get("status") == "known"}
    results = _run_forked(mod, work, nproc, _bmc.VIOLATION_SEEN,
                          deadline=getattr(mod, "TASK_DEADLINE_S", 900 if tier == "quick" else 3600))
    for out in results:
        if out.stats is not None:
            total.merge(out.stats)
        if out.error:
            errors.append((out.cfg, out.error))
        if out.skipped:
            skipped += 1
        violations.extend(out.violations)
        if out.extra:
            extras.append(out.extra)
    if pre_violation is not None:
        violations.append(pre_violation)
    if _bmc.VIOLATION_SEEN.is_set() and not violations:
        # a worker confirmed a violation and the other configurations were cancelled, but its record did not arrive
        # (it was still busy when the grace period ended): nothing may be concluded from this run
        errors.append(({}, "a worker signalled a confirmed violation but was cancelled before it reported it; "
                           "the remaining configurations were not explored"))
    wall = time.time() - t0

    # ---- classify violations against the committed known-findings list ---------------------------
    known = [k for k in load_known() if k.get("property") == pid and k.get("status") == "known"]
    new, listed = [], {}
    for v in violations:
        hit = next((k for k in known if k["key"] == v["key"]), None)
        if hit is not None:
            listed.setdefault(hit["key"], (hit, v))
        else:
            new.append(v)
    os.makedirs(os.path.join(OUT, "replays"), exist_ok=True)
    import glob
    for stale in glob.glob(os.path.join(OUT, "replays", f"{pid}-*.json")):
        os.remove(stale)            # replay files of an earlier run of this check
    lines = []
    seen_keys = set()
    n = 0
    for v in new:
        if v["key"] in seen_keys:
            continue
        seen_keys.add(v["key"])
        n += 1
        path = os.path.join(OUT, "replays", f"{pid}-{n}.json")
        with open(path, "w") as f:
            json.dump(jsonable({"property": pid, "module": mod.__name__, **v}), f, indent=1)
        lines.append(f"VIOLATION property={pid} replay={path}")
        print(f"  what: {v['what']}")
        if n >= 10:
            break
    for key, (hit, v) in listed.items():
        print(f"KNOWN-FINDING: property={pid} {hit['what']}")

    meta = getattr(mod, "META", {})
    cov = {
        "evaluations": total.queries + int(sum(e.get("evaluations", 0) for e in extras)),
        "distinct_nontrivial": len(total.nontrivial) + int(sum(e.get("distinct_nontrivial", 0) for e in extras)),
        "rule": meta.get("rule", "one evaluation = one SMT query (window property, vacuity twin, rooting or "
                         "reachability step) discharged by a fresh solver; distinct = distinct structural hash of "
                         "the query AST; non-trivial = the query is not the literal true/false (it mentions netlist terms)"),
        "samples": (total.samples or [jsonable(c) for c in cfgs[:3]])[:6],
        "configurations": len(cfgs),
        "configurations_skipped": skipped,
        "obligations": total.queries,
        "discharged": total.unsat + total.sat,
        "queries_unsat": total.unsat,
        "queries_sat": total.sat,
        "vacuity_twins": total.twins,
        "vacuity_twins_sat": total.twins_sat,
        "free_state_cex_not_rooted": total.unrooted,
        "traces_validated_against_impl": total.cosim_runs + total.replays,
        "cosim_cycles": total.cosim_cycles,
        "solver_s": round(total.solver_s, 2),
        "cvc5_cross_checked_queries": total.encoded.get("cvc5_cross_checked", 0),
        "functions_encoded": meta.get("encoded", []),
        "bounds": meta.get("bounds", ""),
        "bounds_extensions": meta.get("also", ""),
        "outside_claim": meta.get("outside", ""),
        "engine": meta.get("engine", ""),
        "notes": total.notes[:20],
        "exhaustive": False,
    }
    for e in extras:
        for k, val in e.items():
            if k in ("evaluations", "distinct_nontrivial"):
                continue
            if isinstance(val, int) and not isinstance(val, bool):
                cov[k] = cov.get(k, 0) + val
            elif k not in cov:
                cov[k] = val
    if cov.get("states", 0) < 1 or cov.get("transitions", 0) < 1:
        cov.pop("states", None)
        cov.pop("transitions", None)
    ev = {
        "property_id": pid,
        "tier": tier,
        "seed": seed,
        "level": getattr(mod, "LEVEL", "model_checking"),
        "coverage": jsonable(cov),
        "assumptions": meta.get("assumptions", []),
        "wall_s": round(wall, 2),
        "violations": len(seen_keys),
        "known_findings_seen": sorted(listed.keys()),
        "inconclusive": [jsonable({"cfg": c, "error": e[:400]}) for c, e in errors[:5]],
        "repo": repo_path(),
    }
    os.makedirs(os.path.join(OUT, "evidence"), exist_ok=True)
    with open(os.path.join(OUT, "evidence", f"{pid}.json"), "w") as f:
        json.dump(ev, f, indent=1)
    print(f"[{pid}] tier={tier} configs={len(cfgs)} queries={total.queries} unsat={total.unsat} "
          f"sat={total.sat} twins={total.twins_sat}/{total.twins} cosim={total.cosim_runs} "
          f"violations={len(seen_keys)} known={len(listed)} errors={len(errors)} wall={wall:.1f}s "
          f"solver={total.solver_s:.1f}s")
    for l in lines:
        print(l)
    if lines:
        return 1
    if errors:
        for c, e in errors[:3]:
            print(f"INCONCLUSIVE cfg={jsonable(c)}: {e}")
        return 2
    return 0
