"""E2: symbolic execution of the repository's pure-Python integer / naming code.

The REAL functions run on proxy objects backed by z3 terms.  Every ``bool()`` of a symbolic condition
forks; all feasible paths are enumerated depth-first by re-executing the harness with a decision
prefix; every obligation (``prove``) is discharged by z3 on every path.  Every path is additionally
replayed with plain Python values on the unpatched module (self-validation of the encoding), and a
failed obligation is reported only if that concrete replay shows it too.

Proxies are deliberately NOT int/str subclasses: a C-level consumption (``__index__``, ``hash`` of a
symbolic int, formatting that matters) raises ``Concretized`` -> the check exits 2, never 0.
"""
import builtins
import contextlib
import time

import z3


class PathAbort(BaseException):
    """Harness precondition not met on this path (BaseException: not swallowed by the code under test)."""


class Concretized(BaseException):
    """The code under test consumed a symbolic value in a way the encoding does not support."""


class Inconclusive(Exception):
    pass


_engine = None


def _lift(x):
    if isinstance(x, SymInt):
        return x.e
    if isinstance(x, bool):
        return z3.IntVal(int(x))
    if isinstance(x, int):
        return z3.IntVal(x)
    return None


def _mk(e):
    e = z3.simplify(e)
    if z3.is_int_value(e) and not getattr(_engine, "keep_symbolic", False):
        return e.as_long()
    return SymInt(e)


def _mkb(e):
    e = z3.simplify(e)
    if z3.is_true(e):
        return True
    if z3.is_false(e):
        return False
    return SymBool(e)


def _pow2(e):
    r = z3.IntVal(1 << 16)
    for k in reversed(range(16)):
        r = z3.If(e == k, z3.IntVal(1 << k), r)
    _engine.side_condition(z3.And(e >= 0, e < 16), "shift amount in [0,16)")
    return r


class SymBool:
    def __init__(self, e):
        self.e = e

    def __bool__(self):
        return _engine.branch(self.e)

    def _o(self, o):
        if isinstance(o, SymBool):
            return o.e
        return z3.BoolVal(bool(o))

    def __and__(self, o):
        return _mkb(z3.And(self.e, self._o(o)))
    __rand__ = __and__

    def __or__(self, o):
        return _mkb(z3.Or(self.e, self._o(o)))
    __ror__ = __or__

    def __invert__(self):
        return _mkb(z3.Not(self.e))

    def __eq__(self, o):
        return _mkb(self.e == self._o(o))

    def __ne__(self, o):
        return _mkb(self.e != self._o(o))

    def __hash__(self):
        raise Concretized("hash of a symbolic bool")

    def __repr__(self):
        return "<symbool>"


def b_and(*xs):
    r = True
    for x in xs:
        if isinstance(x, SymBool):
            r = x & r
        elif not x:
            return False
    return r


def b_or(*xs):
    r = False
    for x in xs:
        if isinstance(x, SymBool):
            r = x | r
        elif x:
            return True
    return r


def b_not(x):
    return ~x if isinstance(x, SymBool) else (not x)


def b_implies(a, b):
    return b_or(b_not(a), b)


class SymInt:
    __slots__ = ("e",)

    def __init__(self, e):
        self.e = e

    def _bin(self, o, f, swap=False):
        oe = _lift(o)
        if oe is None:
            return NotImplemented
        a, b = (oe, self.e) if swap else (self.e, oe)
        return _mk(f(a, b))

    def __add__(self, o): return self._bin(o, lambda a, b: a + b)
    def __radd__(self, o): return self._bin(o, lambda a, b: a + b, True)
    def __sub__(self, o): return self._bin(o, lambda a, b: a - b)
    def __rsub__(self, o): return self._bin(o, lambda a, b: a - b, True)
    def __mul__(self, o): return self._bin(o, lambda a, b: a * b)
    def __rmul__(self, o): return self._bin(o, lambda a, b: a * b, True)

    @staticmethod
    def _posdiv(b):
        # Python floor semantics == SMT-LIB (Euclidean) semantics only for a positive divisor
        if z3.is_int_value(b):
            if b.as_long() <= 0:
                raise Concretized("non-positive divisor")
        else:
            _engine.side_condition(b > 0, "divisor > 0")

    def __floordiv__(self, o):
        def f(a, b):
            self._posdiv(b)
            return a / b
        return self._bin(o, f)

    def __rfloordiv__(self, o):
        def f(a, b):
            self._posdiv(b)
            return a / b
        return self._bin(o, f, True)

    def __truediv__(self, o):
        # floating point is outside the encoding: the quotient is kept EXACT (a ratio).  Code that relies on float
        # arithmetic is exposed by the boundary-biased concrete replay (values near the top of wide ranges).
        if type(o) is int and o > 0:
            return SymRatio(self, o)
        raise Concretized("true division of a symbolic integer by a symbolic / non-positive value")

    def __rtruediv__(self, o):
        raise Concretized("true division by a symbolic integer")

    def __mod__(self, o):
        def f(a, b):
            self._posdiv(b)
            return a % b
        return self._bin(o, f)

    def __rmod__(self, o):
        def f(a, b):
            self._posdiv(b)
            return a % b
        return self._bin(o, f, True)

    def __lshift__(self, o):
        return self._bin(o, lambda a, b: a * (z3.IntVal(1 << b.as_long()) if z3.is_int_value(b) else _pow2(b)))

    def __rlshift__(self, o):
        return self._bin(o, lambda a, b: a * _pow2(b), True)

    def __rshift__(self, o):
        return self._bin(o, lambda a, b: a / (z3.IntVal(1 << b.as_long()) if z3.is_int_value(b) else _pow2(b)))

    # bitwise operators with one concrete non-negative operand, for a provably non-negative symbolic
    # value: x & c = sum over the set bits b of c of bit_b(x) * 2^b ; x | c = x + sum (1 - bit_b(x)) * 2^b
    def _bits(self, c, keep_set):
        if not (type(c) is int and c >= 0):
            raise Concretized("bitwise operator on two symbolic operands / negative mask")
        _engine.side_condition(self.e >= 0, "bitwise operand >= 0")
        if c & (c + 1) == 0 and keep_set:          # mask of the form 2^k - 1
            return _mk(self.e % z3.IntVal(c + 1)) if c else _mk(z3.IntVal(0))
        acc = z3.IntVal(0)
        b = 0
        while (c >> b):
            if (c >> b) & 1:
                bit = (self.e / z3.IntVal(1 << b)) % 2
                acc = acc + (bit if keep_set else (1 - bit)) * (1 << b)
            b += 1
        return _mk(acc)

    def __and__(self, o):
        if isinstance(o, SymInt):
            oc = z3.simplify(o.e)
            if not z3.is_int_value(oc):
                raise Concretized("bitwise and of two symbolic operands")
            o = oc.as_long()
        if type(o) is int and o < 0:           # x & ~m  =  x - (x & m)
            return self - self._bits(~o, True)
        return self._bits(o, True)
    __rand__ = __and__

    def __or__(self, o):
        if isinstance(o, SymInt):
            oc = z3.simplify(o.e)
            if z3.is_int_value(oc):
                o = oc.as_long()
            else:
                return _engine.disjoint_or(self, o)
        r = self._bits(o, False)
        return self + r
    __ror__ = __or__

    def __invert__(self):
        return _mk(-self.e - 1)

    def __neg__(self): return _mk(-self.e)
    def __pos__(self): return self

    def _cmp(self, o, f):
        oe = _lift(o)
        if oe is None:
            return NotImplemented
        return _mkb(f(self.e, oe))

    def __lt__(self, o): return self._cmp(o, lambda a, b: a < b)
    def __le__(self, o): return self._cmp(o, lambda a, b: a <= b)
    def __gt__(self, o): return self._cmp(o, lambda a, b: a > b)
    def __ge__(self, o): return self._cmp(o, lambda a, b: a >= b)

    def __eq__(self, o):
        oe = _lift(o)
        if oe is None:
            return False
        return _mkb(self.e == oe)

    def __ne__(self, o):
        oe = _lift(o)
        if oe is None:
            return True
        return _mkb(self.e != oe)

    def __bool__(self):
        return _engine.branch(self.e != 0)

    def __hash__(self):
        # keep_symbolic mode: every integer the code computes stays a proxy and all proxies collide on
        # hash 0, so dict/set lookups fall through to __eq__ (which forks) - sound for symbolic keys
        if getattr(_engine, "keep_symbolic", False):
            return 0
        raise Concretized("hash of a symbolic int")

    def __index__(self):
        e = z3.simplify(self.e)
        if z3.is_int_value(e):
            return e.as_long()          # a proxy that is in fact a constant
        raise Concretized("__index__ of a symbolic int")
    __int__ = __index__

    def __format__(self, spec):
        return "<sym>"

    def __repr__(self):
        return "<sym>"
    __str__ = __repr__


BVW = 16


class SymBV:
    """Bit-vector proxy (16 bit) for bit-twiddling code (`_Shadow.decode_address`).  Every result stays a
    proxy (also constants), all proxies hash to 0: dict / set lookups fall through to __eq__, which forks."""
    __slots__ = ("e",)

    def __init__(self, e):
        self.e = e

    @staticmethod
    def lift(x):
        if isinstance(x, SymBV):
            return x.e
        if isinstance(x, bool):
            return z3.BitVecVal(int(x), BVW)
        if isinstance(x, int):
            return z3.BitVecVal(x, BVW)
        return None

    def _b(self, o, f, swap=False):
        oe = SymBV.lift(o)
        if oe is None:
            return NotImplemented
        a, b = (oe, self.e) if swap else (self.e, oe)
        return SymBV(z3.simplify(f(a, b)))

    def __add__(self, o): return self._b(o, lambda a, b: a + b)
    def __radd__(self, o): return self._b(o, lambda a, b: a + b, True)
    def __sub__(self, o): return self._b(o, lambda a, b: a - b)
    def __rsub__(self, o): return self._b(o, lambda a, b: a - b, True)
    def __mul__(self, o): return self._b(o, lambda a, b: a * b)
    def __rmul__(self, o): return self._b(o, lambda a, b: a * b, True)
    def __and__(self, o): return self._b(o, lambda a, b: a & b)
    def __rand__(self, o): return self._b(o, lambda a, b: a & b, True)
    def __or__(self, o): return self._b(o, lambda a, b: a | b)
    def __ror__(self, o): return self._b(o, lambda a, b: a | b, True)

    def __mod__(self, o):
        if not (type(o) is int and o > 0):
            raise Concretized("modulo by a symbolic / non-positive value")
        return self._b(o, lambda a, b: z3.URem(a, b))      # harness bounds keep values non-negative

    def __invert__(self): return SymBV(z3.simplify(~self.e))

    def _c(self, o, f):
        oe = SymBV.lift(o)
        if oe is None:
            return NotImplemented
        return _mkb(f(self.e, oe))

    def __lt__(self, o): return self._c(o, lambda a, b: a < b)
    def __le__(self, o): return self._c(o, lambda a, b: a <= b)
    def __gt__(self, o): return self._c(o, lambda a, b: a > b)
    def __ge__(self, o): return self._c(o, lambda a, b: a >= b)

    def __eq__(self, o):
        oe = SymBV.lift(o)
        return False if oe is None else _mkb(self.e == oe)

    def __ne__(self, o):
        oe = SymBV.lift(o)
        return True if oe is None else _mkb(self.e != oe)

    def __hash__(self): return 0

    def __index__(self):
        e = z3.simplify(self.e)
        if z3.is_bv_value(e):
            return e.as_signed_long()
        raise Concretized("__index__ of a symbolic bit-vector")
    __int__ = __index__

    def __bool__(self):
        return _engine.branch(self.e != 0)

    def __repr__(self): return "<symbv>"
    __str__ = __repr__
    __format__ = lambda self, spec: "<symbv>"


class SymRatio:
    """Exact quotient num/den (den a positive constant) - what `int / int` means mathematically."""
    def __init__(self, num, den):
        self.num, self.den = num, den

    def __ceil__(self):
        return (self.num + (self.den - 1)) // self.den

    def __floor__(self):
        return self.num // self.den

    def __trunc__(self):
        return self.num // self.den        # harness values are non-negative

    __int__ = __trunc__

    def __repr__(self):
        return "<symratio>"


class SymRange:
    """Stand-in for builtins.range with symbolic bounds (attribute access, identity hashing)."""
    def __init__(self, *args):
        if len(args) == 1:
            self.start, self.stop, self.step = 0, args[0], 1
        elif len(args) == 2:
            (self.start, self.stop), self.step = args, 1
        else:
            self.start, self.stop, self.step = args
        self._h = _engine.fresh_id()

    def __hash__(self):
        return self._h          # per-path creation counter: deterministic across re-executions

    def __eq__(self, o):
        return self is o

    def __getitem__(self, i):
        if i == 0:
            return self.start
        if i == -1:
            n = self.stop - self.start - 1
            return self.start + n // self.step * self.step
        raise Concretized("indexing a symbolic range other than [0] / [-1]")

    def __contains__(self, x):
        return bool(b_and(x >= self.start, x < self.stop))

    def __iter__(self):
        n = self.stop - self.start
        if isinstance(n, (SymInt, SymBV)):
            n = n.__index__()           # the LENGTH must be concrete; the elements may be symbolic
        for i in range(n):
            yield self.start + i

    def __repr__(self):
        return "<symrange>"


def sym_range(*args):
    if all(type(a) is int for a in args):
        return builtins.range(*args)
    return SymRange(*args)


def sym_len(x):
    """Bound to the module global ``len``: the length of a symbolic range is a symbolic integer."""
    if type(x) is SymRange:
        if type(x.step) is int and x.step == 1:
            n = x.stop - x.start
        else:
            n = (x.stop - x.start + x.step - 1) // x.step
        if builtins.isinstance(n, SymInt):
            return _mk(z3.If(_lift(n) > 0, _lift(n), z3.IntVal(0)))
        return max(0, n)
    return builtins.len(x)


class _RangeMeta(type):
    def __instancecheck__(cls, obj):
        return type(obj) in (builtins.range, SymRange)

    def __call__(cls, *args):
        return sym_range(*args)


class RangeStub(metaclass=_RangeMeta):
    """Bound to the module global ``range`` of the module under test."""


class _IntMeta(type):
    def __instancecheck__(cls, obj):
        return builtins.isinstance(obj, builtins.int)

    def __call__(cls, *a, **k):
        if len(a) == 1 and not k:
            x = a[0]
            if type(x) is SymRatio:
                return x.__trunc__()           # int(a / b): exact truncation of the exact quotient
            if type(x) in (SymInt, SymBV):
                return x
        return builtins.int(*a, **k)


class IntStub(int, metaclass=_IntMeta):
    """Bound to the module global ``int`` of the module under test: ``int(x / y)`` stays symbolic (and exact: a detour
    through floating point shows up in the boundary-biased concrete replay, not here)."""


def _norm_cls(cls):
    if cls is IntStub:
        return int
    if type(cls) is tuple:
        return tuple(int if c is IntStub else c for c in cls)
    return cls


# ---- symbolic name parts (C18) --------------------------------------------------------------------
ALPHA = ["a", "b", "ab", "0", 0, 300]      # 300: an integer CPython does not cache (equal but distinct objects)
_STRS = sorted(set(str(x) for x in ALPHA))
_RANK = [_STRS.index(str(x)) for x in ALPHA]
_ISSTR = [int(isinstance(x, str)) for x in ALPHA]


def _tbl(idx, vals):
    r = z3.IntVal(vals[-1])
    for k in reversed(range(len(vals) - 1)):
        r = z3.If(idx == k, z3.IntVal(vals[k]), r)
    return r


class SymStr(str):
    """str(part) of a symbolic name part: compares by the real lexical rank of the alphabet."""
    def __new__(cls, rank):
        o = str.__new__(cls, "<symstr>")
        o.rank = rank
        return o

    def _vs(self, o, op):
        """comparison with a CONCRETE string: true for exactly the alphabet strings s with op(s, o)"""
        import operator
        f = getattr(operator, op)
        ks = [k for k, s_ in enumerate(_STRS) if f(s_, str(o))]
        return _mkb(z3.Or(*[self.rank == k for k in ks])) if ks else False

    def __eq__(self, o):
        return _mkb(self.rank == o.rank) if isinstance(o, SymStr) else (self._vs(o, "eq") if type(o) is str else False)

    def __ne__(self, o):
        return _mkb(self.rank != o.rank) if isinstance(o, SymStr) else (self._vs(o, "ne") if type(o) is str else True)

    def __lt__(self, o): return _mkb(self.rank < o.rank) if isinstance(o, SymStr) else self._vs(o, "lt")
    def __gt__(self, o): return _mkb(self.rank > o.rank) if isinstance(o, SymStr) else self._vs(o, "gt")
    def __le__(self, o): return _mkb(self.rank <= o.rank) if isinstance(o, SymStr) else self._vs(o, "le")
    def __ge__(self, o): return _mkb(self.rank >= o.rank) if isinstance(o, SymStr) else self._vs(o, "ge")
    __hash__ = lambda self: 0


class SymPart:
    """A name part ranging over ALPHA through a symbolic index."""
    def __init__(self, idx):
        self.idx = idx          # z3 Int term

    def __eq__(self, o):
        if isinstance(o, SymPart):
            return _mkb(self.idx == o.idx)
        if o in ALPHA:
            ks = [k for k, a in enumerate(ALPHA) if a == o and type(a) is type(o)]
            return _mkb(z3.Or(*[self.idx == k for k in ks]))
        return False

    def __ne__(self, o):
        r = self.__eq__(o)
        return ~r if isinstance(r, SymBool) else (not r)

    def __hash__(self):
        return 0

    def __str__(self):
        return SymStr(_tbl(self.idx, _RANK))

    def __bool__(self):
        return True             # every alphabet string is non-empty; ints are only tested via >=

    def __ge__(self, o):
        if o == 0:
            return True         # all integer parts of the alphabet are non-negative
        raise Concretized("comparison of a symbolic name part")

    def __repr__(self):
        return "<part>"
    __format__ = lambda self, spec: "<part>"


def sym_isinstance(obj, cls):
    cls = _norm_cls(cls)
    t = type(obj)
    if t is SymInt or t is SymBV:
        if cls is int or (type(cls) is tuple and int in cls):
            return True
        return False
    if t is SymPart:
        if cls is str:
            return _mkb(_tbl(obj.idx, _ISSTR) == 1)
        if cls is int:
            return _mkb(_tbl(obj.idx, _ISSTR) == 0)
        return False
    if t is SymRange:
        return cls is builtins.range or cls is RangeStub
    return builtins.isinstance(obj, cls)


@contextlib.contextmanager
def patched(modules, names=("isinstance", "range", "int", "len")):
    """Rebind module globals of the modules under test (no source edits); restored on exit."""
    stub = {"isinstance": sym_isinstance, "range": RangeStub, "int": IntStub, "len": sym_len}
    saved = []
    for m in modules:
        for n in names:
            saved.append((m, n, m.__dict__.get(n, None), n in m.__dict__))
            setattr(m, n, stub[n])
    try:
        yield
    finally:
        for m, n, old, had in saved:
            if had:
                setattr(m, n, old)
            else:
                delattr(m, n)


# ---------------------------------------------------------------------------------------------------
class Concrete:
    """Same harness API, plain Python values (used for self-validation and for replay files)."""
    symbolic = False

    def __init__(self, values):
        self.values = values
        self.observed = []
        self.proofs = []

    def int(self, name, lo=None, hi=None):
        v = self.values.get(name, lo if lo is not None else 0)
        if (lo is not None and v < lo) or (hi is not None and v > hi):
            raise PathAbort()
        return v

    def part(self, name):
        v = ALPHA[self.values.get(name, 0)]
        if type(v) is int and v > 256:
            v = int(str(v))           # a fresh object every time, as a value computed at run time would be
        elif type(v) is str:
            v = "".join(list(v))      # likewise a fresh (not interned by identity) string object
        return v

    def bv(self, name, lo=None, hi=None):
        return self.int(name, lo, hi)

    def assume(self, cond):
        if not cond:
            raise PathAbort()

    def prove(self, cond, msg):
        self.proofs.append((msg, bool(cond)))

    def observe(self, *vals):
        self.observed.append(tuple(_plain(v) for v in vals))


def _plain(v):
    if isinstance(v, (list, tuple)):
        return tuple(_plain(x) for x in v)
    if isinstance(v, bool) or v is None or isinstance(v, (int, str)):
        return v
    return repr(v)


def run_concrete(fn, values, modules=()):
    c = Concrete(values)
    aborted = False
    try:
        fn(c)
    except PathAbort:
        aborted = True
    return c, aborted


class Engine:
    symbolic = True

    def __init__(self, timeout_ms=20000, validate=True, keep_symbolic=False):
        self.keep_symbolic = keep_symbolic
        self.solver = z3.Solver()
        self.solver.set("timeout", timeout_ms)
        self.paths = 0
        self.aborted = 0
        self.queries = 0
        self.failures = []         # (msg, values)
        self.validated = 0
        self.validate = validate
        self.solver_s = 0.0
        self.proved = 0
        self.q_unsat = 0
        self.unconfirmed = []

    # ---- solver helpers ------------------------------------------------------------------------
    def _check(self, *extra):
        t0 = time.time()
        r = str(self.solver.check(*extra))
        self.solver_s += time.time() - t0
        self.queries += 1
        if r == "unsat":
            self.q_unsat += 1
        if r == "unknown":
            raise Inconclusive(f"solver returned unknown ({self.solver.reason_unknown()})")
        return r

    def disjoint_or(self, a, b):
        """a | b for two symbolic operands whose set bits are provably disjoint below 2^16: a + b."""
        bits = []
        for k in range(16):
            bits.append(z3.Or(((a.e / (1 << k)) % 2) == 0, ((b.e / (1 << k)) % 2) == 0))
        small = z3.And(a.e >= 0, b.e >= 0, a.e < (1 << 16), b.e < (1 << 16))
        if self._check(z3.Not(z3.And(small, *bits))) == "unsat":
            return _mk(a.e + b.e)
        # the bits are not provably disjoint: exact bit-by-bit OR, for operands provably below 2^16
        self.side_condition(small, "operands of | are non-negative and below 2^16")
        acc = z3.IntVal(0)
        for k in range(16):
            ak, bk = (a.e / (1 << k)) % 2, (b.e / (1 << k)) % 2
            acc = acc + z3.If(z3.Or(ak == 1, bk == 1), 1 << k, 0)
        return _mk(acc)

    def fresh_id(self):
        self._ids += 1
        return self._ids

    # ---- API for harnesses -----------------------------------------------------------------------
    def int(self, name, lo=None, hi=None):
        v = z3.Int(name)
        self._declared[name] = v
        if hi is not None:
            self._hi[name] = hi
        if lo is not None:
            self._add(v >= lo)
        if hi is not None:
            self._add(v <= hi)
        return SymInt(v)

    def bv(self, name, lo=None, hi=None):
        v = z3.BitVec(name, BVW)
        self._declared[name] = v
        if lo is not None:
            self._add(v >= lo)          # signed comparison on 16 bits; harness bounds stay far below 2^15
        if hi is not None:
            self._add(v <= hi)
        return SymBV(v)

    def part(self, name):
        v = z3.Int(name)
        self._declared[name] = v
        self._add(z3.And(v >= 0, v < len(ALPHA)))
        return SymPart(v)

    def _add(self, e):
        self.solver.add(e)

    def assume(self, cond):
        if isinstance(cond, SymBool):
            if self._check(cond.e) != "sat":
                raise PathAbort()
            self._add(cond.e)
        elif not cond:
            raise PathAbort()

    def side_condition(self, e, why):
        if self._check(z3.Not(e)) != "unsat":
            raise Concretized(f"side condition of the encoding not implied by the path: {why}")

    def prove(self, cond, msg):
        self._proof_idx += 1
        idx = self._proof_idx - 1
        if isinstance(cond, SymBool):
            r = self._check(z3.Not(cond.e))
            if r == "unsat":
                self.proved += 1
                return
            model = self.solver.model()
        elif cond:
            self.proved += 1
            return
        else:
            if self._check() != "sat":
                return
            model = self.solver.model()
        # keep a few alternative witnesses: code whose behaviour depends on hash / set iteration order may
        # fail concretely for some of them only
        cands = [self._values(model)]
        self.solver.push()
        try:
            if isinstance(cond, SymBool):
                self.solver.add(z3.Not(cond.e))
            for _ in range(63):
                if not self._declared:
                    break
                self.solver.add(z3.Or(*[v != cands[-1][n] for n, v in self._declared.items()]))
                if self._check() != "sat":
                    break
                cands.append(self._values(self.solver.model()))
        finally:
            self.solver.pop()
        self._pending.append((idx, msg, cands))

    def observe(self, *vals):
        self._observed.append(vals)

    # ---- branching ---------------------------------------------------------------------------------
    @staticmethod
    def _signature(e):
        """Order-independent structural signature of a (small) branch condition: z3's simplifier orders the
        arguments of commutative operators by internal AST ids, which differ between re-executions."""
        names, nums, ops = [], [], []
        todo = [e]
        seen = 0
        while todo and seen < 400:
            x = todo.pop()
            seen += 1
            if z3.is_const(x):
                if x.decl().kind() == z3.Z3_OP_UNINTERPRETED:
                    names.append(x.decl().name())
                else:
                    nums.append(str(x))
            else:
                ops.append(x.decl().kind())
                todo.extend(x.children())
        return hash((tuple(sorted(names)), tuple(sorted(nums)), tuple(sorted(ops))))

    def branch(self, e):
        h = self._signature(e)
        if self._pos < len(self._prefix):
            d, hh = self._prefix[self._pos]
            if hh != h:
                raise Inconclusive("non-deterministic replay: branch condition differs between re-executions")
        else:
            rt = self._check(e)
            rf = self._check(z3.Not(e))
            if rt == "sat" and rf == "sat":
                self._work.append(self._taken + [(False, h)])
                d = True
            elif rt == "sat":
                d = True
            elif rf == "sat":
                d = False
            else:
                raise PathAbort()
        self._pos += 1
        self._taken.append((d, h))
        self._add(e if d else z3.Not(e))
        return d

    def _values(self, model):
        out = {}
        for n, v in self._declared.items():
            val = model.eval(v, model_completion=True)
            out[n] = val.as_signed_long() if z3.is_bv(val) else val.as_long()
        return out

    def _eval(self, model, v):
        if isinstance(v, SymInt):
            return model.eval(v.e, model_completion=True).as_long()
        if isinstance(v, SymBV):
            return model.eval(v.e, model_completion=True).as_signed_long()
        if isinstance(v, SymBool):
            return z3.is_true(model.eval(v.e, model_completion=True))
        if isinstance(v, SymPart):
            return ALPHA[model.eval(v.idx, model_completion=True).as_long()]
        if isinstance(v, (list, tuple)):
            return tuple(self._eval(model, x) for x in v)
        return _plain(v)

    # ---- exploration ----------------------------------------------------------------------------------
    def explore(self, fn, modules=(), max_paths=2_000_000, stubs=("isinstance", "range", "int", "len")):
        """Enumerate all feasible paths of fn(E).  ``modules`` get their globals rebound while a
        symbolic path runs and are untouched while the concrete replay runs."""
        global _engine
        _engine = self
        self._work = [[]]
        t0 = time.time()
        while self._work:
            self._prefix = self._work.pop()
            self._pos = 0
            self._taken = []
            self._declared = {}
            self._hi = {}
            self._pending = []
            self._observed = []
            self._proof_idx = 0
            self._ids = 0
            self.solver.push()
            aborted = False
            try:
                with patched(modules, stubs):
                    try:
                        fn(self)
                    except PathAbort:
                        aborted = True
                if aborted:
                    self.aborted += 1
                else:
                    self._finish_path(fn)
            finally:
                self.solver.pop()
            self.paths += 1
            if self.paths >= max_paths:
                raise Inconclusive(f"path budget {max_paths} exhausted: exploration incomplete")
        self.wall = time.time() - t0
        if self.unconfirmed and not self.failures:
            raise Inconclusive(self.unconfirmed[0])
        return self

    def _finish_path(self, fn):
        # failed obligations: confirm on the unpatched module with plain ints
        for idx, msg, cands in self._pending:
            confirmed, why = None, None
            for values in cands:
                c, ab = run_concrete(fn, values)
                if ab or idx >= len(c.proofs) or c.proofs[idx][0] != msg:
                    why = f"concrete replay diverges from the symbolic path at obligation {msg!r} (inputs {values})"
                    continue
                if c.proofs[idx][1]:
                    why = (f"obligation {msg!r} fails symbolically but holds concretely for {values}: the encoding "
                           f"misrepresents the code (or the code's behaviour depends on hash order)")
                    continue
                confirmed = values
                break
            if confirmed is None:
                # keep exploring: another path may exhibit the same failure with a replayable input
                self.unconfirmed.append(why)
                continue
            if not any(m == msg for m, _ in self.failures):
                self.failures.append((msg, confirmed))
        if self._pending:
            return      # a confirmed violation on this path: nothing further to validate
        if self.validate:
            if self._check() != "sat":
                return
            model = self.solver.model()
            values = self._values(model)
            c, ab = run_concrete(fn, values)
            if ab:
                raise Inconclusive(f"self-validation: concrete run aborts where the symbolic path does not ({values})")
            sym_obs = [self._eval(model, o) for o in self._observed]
            if sym_obs != c.observed:
                # The real code behaves differently from the symbolic run on the solver's own input
                # (typically hash / set-iteration-order dependent code).  If the concrete run on the
                # unpatched module breaks an obligation, that is a genuine, replayable violation.
                bad = [m for m, ok in c.proofs if not ok]
                if bad:
                    if not any(m == bad[0] for m, _ in self.failures):
                        self.failures.append((bad[0], values))
                    return
                # keep exploring: another path / input may turn this into a confirmed violation; if none does the
                # whole run is inconclusive (the encoding does not represent the code)
                self.unconfirmed.append(f"self-validation: symbolic and concrete outcomes differ for {values}: "
                                        f"{sym_obs[:6]} vs {c.observed[:6]}")
                return
            self.validated += 1
            # boundary-biased second replay: push every wide-ranged input towards the top of its range (exposes code
            # that is only correct for "small" integers, e.g. a detour through floating point)
            wide = [n for n, hi in self._hi.items() if hi >= (1 << 50)]
            if wide:
                self.solver.push()
                try:
                    for n in wide:
                        c = self._declared[n] >= self._hi[n] - 3
                        if self._check(c) == "sat":
                            self.solver.add(c)
                    if self._check() == "sat":
                        model = self.solver.model()
                        values = self._values(model)
                        c2, ab = run_concrete(fn, values)
                        if not ab:
                            bad = [m for m, ok in c2.proofs if not ok]
                            if bad:
                                if not any(m == bad[0] for m, _ in self.failures):
                                    self.failures.append((bad[0], values))
                            elif [self._eval(model, o) for o in self._observed] != c2.observed:
                                self.unconfirmed.append(f"boundary replay: symbolic and concrete outcomes differ for {values}")
                finally:
                    self.solver.pop()
