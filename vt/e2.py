"""Glue shared by the E2 (symbolic execution) property modules."""
from . import symex
from .bmc import Inconclusive as BmcInconclusive
from .e1 import cfg_key


def run_harness(pid, cfg, harness, modules, out, stats, label=None, max_paths=400_000):
    """Explore all paths of ``harness(E)``; record failures as violations (already confirmed by a
    concrete replay on the unpatched module inside the engine)."""
    E = symex.Engine()
    try:
        E.explore(harness, modules=modules, max_paths=max_paths)
    except symex.Inconclusive as e:
        raise BmcInconclusive(str(e))
    except symex.Concretized as e:
        raise BmcInconclusive(f"unsupported concretisation: {e}")
    stats.queries += E.queries
    stats.unsat += E.q_unsat
    stats.sat += E.queries - E.q_unsat
    stats.solver_s += E.solver_s
    stats.cosim_runs += E.validated
    ex = out.extra
    ex["paths"] = ex.get("paths", 0) + E.paths
    ex["paths_aborted_by_precondition"] = ex.get("paths_aborted_by_precondition", 0) + E.aborted
    ex["paths_replayed_concretely"] = ex.get("paths_replayed_concretely", 0) + E.validated
    ex["obligations_proved"] = ex.get("obligations_proved", 0) + E.proved
    ex["distinct_nontrivial"] = ex.get("distinct_nontrivial", 0) + (E.paths - E.aborted)
    if len(stats.samples) < 4:
        stats.samples.append({"cfg": cfg, "harness": label, "paths": E.paths, "aborted": E.aborted,
                              "obligations_proved": E.proved, "solver_queries": E.queries,
                              "failures": [m for m, _ in E.failures]})
    if E.failures:
        from .bmc import mark_violation
        mark_violation()
    for msg, values in E.failures:
        out.violations.append({
            "key": f"{label or 'h'}:{msg}@{cfg_key(cfg)}",
            "what": f"{pid} {msg} - inputs {values} (configuration {cfg_key(cfg)}); confirmed by concrete replay "
                    f"on the unpatched module",
            "query": label, "cfg": cfg, "values": values, "msg": msg, "stimulus": [], "prefix": 0, "k": 0,
            "detail": {}})
    return E


def replay_concrete(harness, v):
    c, aborted = symex.run_concrete(harness, v["values"])
    bad = [m for m, ok in c.proofs if not ok]
    print("   failing obligations on this tree:", bad)
    return v["msg"] in bad
