"""Glue shared by the E1 (netlist) property modules."""
import json

from .bmc import decide, cosim, replay_on_sim, Inconclusive


class Q:
    """One window query.  build(h, frames) -> (assumptions, bad)."""
    def __init__(self, name, k, build, init="free", twin=None, max_prefix=6, rst=False):
        self.name = name
        self.k = k
        self.build = build
        self.init = init
        self.twin = twin
        self.max_prefix = max_prefix
        self.rst = rst            # the reset input is free in this window (the build function constrains it)


def cfg_key(cfg):
    return json.dumps(cfg, sort_keys=True, separators=(",", ":"), default=repr)


def _crc(cfg):
    import zlib
    return zlib.crc32(cfg_key(cfg).encode())


def history_of(mod, cfg):
    """Configurations of the same family that are built and elaborated in this process BEFORE the one under check
    (hardware must not depend on process-global state left behind by other instances: module-level caches, class
    attributes, interned helper objects).  Deterministic in the configuration."""
    allc = [c for c in (getattr(mod, "_ALL_CONFIGS", None) or []) if isinstance(c, dict)]
    if not allc or not getattr(mod, "WARMUP", True):
        return []
    x = _crc(cfg)
    picks = []
    for j in range(3):
        c = allc[(x >> (8 * j)) % len(allc)]
        if c != cfg and c not in picks:
            picks.append(c)
    return picks


def elaborate_history(mod, hist):
    from amaranth.hdl import Fragment
    for c in hist:
        try:
            Fragment.get(mod.maker(c)().top, None)
        except Exception:
            pass            # a sibling that cannot be built here (refused layout, other kind of entry) is no history


def second_elaboration(mod, cfg):
    """every third configuration is checked on the SECOND elaboration of the same object (a design is routinely
    converted and then simulated, or simulated twice)"""
    return getattr(mod, "SECOND", True) and "second" not in cfg and _crc(cfg) % 3 == 0


def maker_of(mod, cfg):
    make = mod.maker(cfg)
    if not second_elaboration(mod, cfg):
        return make

    def make2():
        from amaranth.hdl import Fragment
        h = make()
        Fragment.get(h.top, None)
        return h
    return make2


def run_queries(mod, cfg, out, stats, cosim_cycles=0, extra_observe=lambda h: []):
    """Translate the configuration once, discharge all its queries, optionally co-simulate."""
    make = maker_of(mod, cfg)
    hist = history_of(mod, cfg)
    elaborate_history(mod, hist)
    try:
        if getattr(mod, "WARMUP", True):
            # another instance of the same configuration is built and elaborated first as well
            make().translate()
        h = make()
    except (ValueError, TypeError) as e:
        # every member of a configuration family is a legal configuration (the modules skip, before they get here,
        # the layouts the library may refuse): a refusal is a violation, not a harness problem
        import os
        import traceback
        tb = traceback.extract_tb(e.__traceback__)
        if not any((os.sep + "amaranth_soc" + os.sep) in fr.filename for fr in tb):
            raise
        from .bmc import mark_violation
        mark_violation(f"refused@{cfg_key(cfg)}")
        out.violations.append({
            "key": f"refused@{cfg_key(cfg)}",
            "what": f"{mod.PROPERTY} a legal configuration is refused: {type(e).__name__}: {str(e)[:120]} ({cfg_key(cfg)})",
            "query": "construct", "cfg": cfg, "stimulus": [], "prefix": 0, "k": 0, "detail": {}, "history": hist})
        return
    ts = h.translate()
    st = ts.stats()
    for k, v in st.items():
        stats.encoded[k] = max(stats.encoded.get(k, 0), v)
    undecided = None
    found = False
    for q in mod.queries(h, cfg):
        try:
            v = decide(make, h, q.name, q.k, q.build, stats, init=q.init, max_prefix=q.max_prefix,
                       twin=q.twin, sample={"cfg": cfg}, rst_free=q.rst)
        except Inconclusive as e:
            # the other queries of this configuration are still decided: a confirmed violation of one of them
            # stands; without one, the configuration is reported as inconclusive
            undecided = undecided or e
            continue
        if v is not None:
            found = True
            from .bmc import mark_violation
            mark_violation(f"{q.name}@{cfg_key(cfg)}")
            out.violations.append({
                "key": f"{q.name}@{cfg_key(cfg)}",
                "what": f"{mod.PROPERTY} {q.name} violated for configuration {cfg_key(cfg)} "
                        f"(reset-rooted, {len(v.stimulus)} cycles, reproduced on the simulator)",
                "query": q.name, "cfg": cfg, "stimulus": v.stimulus, "prefix": v.prefix, "k": v.k,
                "detail": v.detail, "history": hist, "second_elaboration": second_elaboration(mod, cfg),
            })
            from . import bmc as _b
            if out.violations[-1]["key"] not in _b.KNOWN_KEYS:
                # a confirmed, unlisted violation decides the check: report it at once (the runner cancels the
                # other configurations after a grace period and must not lose this record while the remaining
                # queries of this configuration are still being solved on a loaded machine)
                return
    if undecided is not None and not found:
        raise undecided
    if cosim_cycles and undecided is None:
        cosim(make, cycles=cosim_cycles, seed=hash(cfg_key(cfg)) & 0xffff, stats=stats, extra=extra_observe)


def replay(mod, v):
    """Re-run a stored counterexample on the simulator against the current tree (no solver)."""
    cfg = v["cfg"]
    elaborate_history(mod, v.get("history") or [])
    make = maker_of(mod, cfg)
    if v.get("query") == "construct":
        try:
            make().translate()
            make()
            return False
        except (ValueError, TypeError):
            return True
    h = make()
    qs = {q.name: q for q in mod.queries(h, cfg)}
    q = qs[v["query"]]
    ok, detail = replay_on_sim(make, q.build, q.k, v["stimulus"], v["prefix"])
    print("  ", detail)
    return ok
