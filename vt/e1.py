"""Glue shared by the E1 (netlist) property modules."""
import json

from .bmc import decide, cosim, replay_on_sim, Inconclusive


class Q:
    """One window query.  build(h, frames) -> (assumptions, bad)."""
    def __init__(self, name, k, build, init="free", twin=None, max_prefix=6):
        self.name = name
        self.k = k
        self.build = build
        self.init = init
        self.twin = twin
        self.max_prefix = max_prefix


def cfg_key(cfg):
    return json.dumps(cfg, sort_keys=True, separators=(",", ":"), default=repr)


def run_queries(mod, cfg, out, stats, cosim_cycles=0, extra_observe=lambda h: []):
    """Translate the configuration once, discharge all its queries, optionally co-simulate."""
    make = mod.maker(cfg)
    if getattr(mod, "WARMUP", True):
        # another instance of the same configuration is built and elaborated first: hardware must not depend
        # on process-global state left behind by earlier elaborations (module-level caches and the like)
        make().translate()
    h = make()
    ts = h.translate()
    st = ts.stats()
    for k, v in st.items():
        stats.encoded[k] = max(stats.encoded.get(k, 0), v)
    for q in mod.queries(h, cfg):
        v = decide(make, h, q.name, q.k, q.build, stats, init=q.init, max_prefix=q.max_prefix,
                   twin=q.twin, sample={"cfg": cfg})
        if v is not None:
            from .bmc import mark_violation
            mark_violation(f"{q.name}@{cfg_key(cfg)}")
            out.violations.append({
                "key": f"{q.name}@{cfg_key(cfg)}",
                "what": f"{mod.PROPERTY} {q.name} violated for configuration {cfg_key(cfg)} "
                        f"(reset-rooted, {len(v.stimulus)} cycles, reproduced on the simulator)",
                "query": q.name, "cfg": cfg, "stimulus": v.stimulus, "prefix": v.prefix, "k": v.k,
                "detail": v.detail,
            })
    if cosim_cycles:
        cosim(make, cycles=cosim_cycles, seed=hash(cfg_key(cfg)) & 0xffff, stats=stats, extra=extra_observe)


def replay(mod, v):
    """Re-run a stored counterexample on the simulator against the current tree (no solver)."""
    cfg = v["cfg"]
    make = mod.maker(cfg)
    h = make()
    qs = {q.name: q for q in mod.queries(h, cfg)}
    q = qs[v["query"]]
    ok, detail = replay_on_sim(make, q.build, q.k, v["stimulus"], v["prefix"])
    print("  ", detail)
    return ok
